"""Evidence files, replay artefacts, known-findings matching, exit codes."""
import os
import sys
import json
import time
import subprocess

from . import core

ROOT = core.ROOT
KNOWN = os.path.join(ROOT, 'known_findings.json')
SCHEMA = '/root/.vp/EVIDENCE.schema.json'


def load_known(pid):
    if not os.path.exists(KNOWN):
        return []
    with open(KNOWN) as f:
        data = json.load(f)
    return [e for e in data.get('findings', []) if e.get('property') == pid]


def _match_one(entry, v):
    """An open known finding suppresses violation v iff every key of
    entry['match'] is present in v with an allowed value (signature AND scope)."""
    m = entry.get('match') or {}
    if not m:
        return False
    for k, allowed in m.items():
        if k == 'sig':
            got = list(v.get('sig', ()))
            if got != [str(a) for a in allowed]:
                return False
            continue
        if k == 'sig_prefix':
            got = list(v.get('sig', ()))
            if got[:len(allowed)] != [str(a) for a in allowed]:
                return False
            continue
        if k not in v:
            return False
        got = v[k]
        if isinstance(allowed, list):
            if got not in allowed and str(got) not in [str(a) for a in allowed]:
                return False
        else:
            if got != allowed and str(got) != str(allowed):
                return False
    return True


def classify(pid, agg):
    """Split the violations of a run into (unknown, known) by signature+scope."""
    known = [e for e in load_known(pid) if e.get('status', 'open') == 'open']
    unknown = []          # list of (sig, cid, case, v, count)
    matched = {}          # entry id -> count of distinct scopes matched
    for s, e in sorted(agg['viol'].items(), key=lambda kv: kv[1]['cid']):
        un = []
        for sk, (cid, case, v) in sorted(e['scopes'].items(), key=lambda kv: kv[1][0]):
            hit = None
            for k in known:
                if _match_one(k, v):
                    hit = k
                    break
            if hit is None:
                un.append((cid, case, v))
            else:
                matched[hit['id']] = matched.get(hit['id'], 0) + max(1, e.get('known_counts', {}).get(hit['id'], 1)
                                                                     if str(sk).startswith('known:') else 1)
        if e.get('overflow') and not un:
            # more distinct scopes than tracked: cannot prove all are listed
            un.append((e['cid'], e['case'], e['v']))
        if un:
            un.sort(key=lambda t: t[0])
            unknown.append((s, un[0][0], un[0][1], un[0][2], e['count'], len(un)))
    return unknown, matched, known


def write_replay(pid, sig, case, v, extra=None):
    d = os.path.join(ROOT, 'replays', pid)
    os.makedirs(d, exist_ok=True)
    name = '%016x.json' % core.h64(sig, core.scope_key(v))
    path = os.path.join(d, name)
    doc = {'property': pid, 'signature': sig, 'case': case, 'violation': v,
           'lib': core.lib_info(),
           'how': './check %s --replay %s' % (pid, path)}
    if extra:
        doc.update(extra)
    with open(path, 'w') as f:
        f.write(core.jdump(doc))
    return path


def confirm(pid, path):
    """Re-execute a replay artefact in a fresh process.  True iff it fails
    again there (exit 1) -- so flakiness can never be reported as a finding."""
    env = dict(os.environ)
    env['VERIF_NO_CONFIRM'] = '1'
    p = subprocess.run([os.path.join(ROOT, 'check'), pid, '--replay', path, '--quiet'],
                       capture_output=True, text=True, env=env, timeout=600)
    return p.returncode == 1, p.stdout[-2000:] + p.stderr[-2000:]


def validate_evidence(doc):
    try:
        import jsonschema
        with open(SCHEMA) as f:
            schema = json.load(f)
        jsonschema.validate(doc, schema)
        return None
    except ImportError:
        pass
    except Exception as e:
        return str(e)[:1000]
    # built-in fallback: the keys the schema requires for our levels
    cov = doc.get('coverage', {})
    for k in ('property_id', 'tier', 'seed', 'level', 'coverage', 'wall_s'):
        if k not in doc:
            return 'missing ' + k
    need = ['evaluations', 'distinct_nontrivial', 'rule', 'samples']
    if doc['level'] == 'model_checking':
        need += ['states', 'transitions', 'traces_validated_against_impl']
    for k in need:
        if k not in cov:
            return 'coverage missing ' + k
    if cov['evaluations'] < 1 or cov['distinct_nontrivial'] < 2 or not cov['samples']:
        return 'coverage counts too small'
    return None


def finish(prop, agg, tier, seed, t0, extra_cov=None, caps_hit=None):
    """Write evidence, print VIOLATION / KNOWN-FINDING lines, return exit code."""
    pid = prop.ID
    wall = time.time() - t0
    if agg['harness']:
        print('HARNESS-ERROR property=%s (%d cases); first:' % (pid, len(agg['harness'])))
        print(core.jdump(agg['harness'][0]['case'])[:1000])
        print(agg['harness'][0]['trace'])
        return 2
    unknown, matched, known = classify(pid, agg)
    samples = []
    for oc, (cid, case) in sorted(agg['first'].items(), key=lambda kv: kv[1][0]):
        samples.append({'outcome': oc, 'case_id': list(cid), 'case': case})
    if agg['last'] is not None:
        samples.append({'outcome': 'last-case', 'case_id': list(agg['last'][0]),
                        'case': agg['last'][1]})
    samples = json.loads(core.jdump(samples[:12]))
    cov = {
        'evaluations': agg['n'],
        'distinct_nontrivial': len(agg['nt']),
        'rule': prop.RULE,
        'samples': samples,
        'states': len(agg['states']),
        'transitions': agg['trans'],
        'traces_validated_against_impl': agg['n'],
        'exhaustive': not caps_hit,
        'caps_hit': caps_hit or [],
        'bounds': prop.bounds(tier),
        'groups': agg.get('ngroups'),
        'outcomes': dict(agg['outcomes']),
        'distinct_observed_outputs': len(agg['outs']),
        'violating_case_clauses': agg['nviol'],
        'distinct_violation_signatures': len(agg['viol']),
        'known_findings_matched': matched,
        'lib': core.lib_info(),
        'engine': prop.ENGINE,
    }
    if extra_cov:
        cov.update(extra_cov)
    rc = 0
    lines = []
    unconfirmed = []
    confirm_on = os.environ.get('VERIF_NO_CONFIRM') != '1'
    for i, (sig, cid, case, v, count, nscopes) in enumerate(unknown):
        path = write_replay(pid, sig, case, v)
        if confirm_on and i < 12:
            ok, out = confirm(pid, path)
            if not ok:
                # never reported as a finding; the run is a harness error unless another violation is confirmed
                print('HARNESS-ERROR property=%s: violation did not reproduce in a fresh '
                      'process: %s\n%s' % (pid, path, out))
                unconfirmed.append(path)
                continue
        lines.append('VIOLATION property=%s replay=%s' % (pid, path))
        print('VIOLATION property=%s replay=%s' % (pid, path))
        print('  signature=%s cases=%d first=%s' % (sig, count, core.jdump(case)[:400]))
        print('  detail=%s' % v.get('detail', '')[:600])
        rc = 1
    for k in known:
        n = matched.get(k['id'], 0)
        if n:
            print('KNOWN-FINDING: property=%s %s [%s; %d distinct scope(s) matched]'
                  % (pid, k['what'], k['id'], n))
    doc = {
        'property_id': pid, 'tier': tier, 'seed': int(seed), 'level': prop.LEVEL,
        'coverage': cov, 'assumptions': list(prop.ASSUMPTIONS),
        'wall_s': round(wall, 3), 'violations': len(unknown) - len(unconfirmed),
    }
    if unconfirmed and rc == 0:
        rc = 2
    err = validate_evidence(json.loads(core.jdump(doc)))
    # (VERIF_EVIDENCE_DIR: the seeded-change workflow keeps runs against changed trees out of /verif/evidence)
    evdir = os.environ.get('VERIF_EVIDENCE_DIR') or os.path.join(ROOT, 'evidence')
    os.makedirs(evdir, exist_ok=True)
    with open(os.path.join(evdir, pid + '.json'), 'w') as f:
        f.write(json.dumps(json.loads(core.jdump(doc)), indent=1, sort_keys=True))
    if err:
        print('HARNESS-ERROR property=%s evidence does not validate: %s' % (pid, err))
        return 2
    print('%s tier=%s evaluations=%d states=%d transitions=%d distinct_nontrivial=%d '
          'outcomes=%s violations=%d known=%d wall=%.1fs'
          % (pid, tier, agg['n'], len(agg['states']), agg['trans'], len(agg['nt']),
             dict(agg['outcomes']), len(unknown), sum(matched.values()), wall))
    return rc
