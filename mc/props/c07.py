"""C07 - saving to netCDF and reopening reproduces the file (Engine A)."""
import os
import shutil
import tempfile
import itertools
from collections import OrderedDict

import numpy as np

from ..engine import core
from ..engine.core import viol, result, h64
from ..ref import rfile
from ..ref.rfile import RFile, RVar
from .. import lib

FLAVOURS = ('NETCDF3_CLASSIC', 'NETCDF3_64BIT_OFFSET', 'NETCDF4_CLASSIC', 'NETCDF4')
CLASSIC_DT = ('i1', 'i2', 'i4', 'f4', 'f8', 'S1')
NC4_DT = ('u1', 'u2', 'u4', 'i8', 'u8')
WRITERS = ('save', 'pncwrite', 'pncgen')


def ramp(dt, shape, base):
    n = int(np.prod(shape)) if shape else 1
    if dt == 'S1':
        return np.array(list('abcdefghij'[:n]), dtype='S1').reshape(shape)
    v = (base + np.arange(n)).reshape(shape)
    if np.dtype(dt).kind == 'u':
        v = v % 200
    if dt == 'i1':
        v = v % 100 - 50
    return v.astype(dt)


def file_for(kind, flavour):
    if isinstance(kind, dict):
        return grid_file(kind, flavour)
    f = RFile()
    f.fillkinds = {}
    nc4 = flavour == 'NETCDF4'
    if kind == 'dims':
        # dimension order, unlimited in the middle, variable order not alphabetical
        f.dims['x'] = [3, False]
        f.dims['t'] = [2, True]
        f.dims['z'] = [1, False]
        if nc4:
            f.dims['u2'] = [2, True]
        f.vars['Zed'] = RVar(('z', 'x'), ramp('f4', (1, 3), 10), attrs={'units': 'm'})
        f.vars['Alpha'] = RVar(('t', 'z', 'x'), ramp('f8', (2, 1, 3), 20), attrs={'units': 'K'})
        if 'NETCDF3' in flavour:
            # classic files: the record dimension must be the first dimension of a variable
            f.vars['mid'] = RVar(('t', 'x'), ramp('i4', (2, 3), 30), attrs={'units': '1'})
        else:
            f.vars['mid'] = RVar(('x', 't'), ramp('i4', (3, 2), 30), attrs={'units': '1'})
        f.vars['scalar'] = RVar((), ramp('i4', (), 7), attrs={'units': '1'})
        if nc4:
            f.vars['two'] = RVar(('u2', 't'), ramp('f4', (2, 2), 40), attrs={'units': '1'})
        f.attrs['title'] = 'dims'
        return f
    f.dims['t'] = [2, True]
    f.dims['z'] = [1, False]
    f.dims['x'] = [3, False]
    if kind == 'bigendian':
        # the 'dtypes' file with every numeric array held in non-native (big-endian) byte order in memory
        g = file_for('dtypes', flavour)
        g.bigendian = True
        g.attrs['title'] = 'bigendian'
        return g
    if kind == 'dtypes':
        dts = list(CLASSIC_DT) + (list(NC4_DT) if nc4 else [])
        shapes = [(('t', 'z', 'x'), (2, 1, 3)), (('t', 'x'), (2, 3)), (('x',), (3,)), (('z', 'x'), (1, 3))]
        for i, dt in enumerate(dts):
            dims, sh = shapes[i % len(shapes)]
            if dt == 'S1':
                dims, sh = ('x',), (3,)
            f.vars['V_' + dt] = RVar(dims, ramp(dt, sh, 100 * (i + 1)), attrs={'units': 'u' + dt})
        f.vars['scalar'] = RVar((), ramp('f4', (), 3), attrs={'units': '1'})
        f.attrs['title'] = 'dtypes'
    elif kind == 'masked':
        def mv(name, dt, dims, sh, fillkind, fill, mpos):
            d = ramp(dt, sh, 1000)
            m = np.zeros(sh, bool)
            m.flat[mpos] = True
            v = RVar(dims, d, m, OrderedDict([('units', 'ppb')]), fill=fill, masked=True)
            f.fillkinds[name] = fillkind
            f.vars[name] = v
        mv('M_fill', 'f8', ('t', 'x'), (2, 3), 'fill_value', -999., 1)
        mv('M_miss', 'f4', ('t', 'z', 'x'), (2, 1, 3), 'missing_value', -5., 0)
        mv('M_FV', 'i4', ('x',), (3,), '_FillValue', -999, 2)
        mv('M_big', 'f4', ('z', 'x'), (1, 3), 'fill_value', 1e20, 1)
        mv('M_zero', 'i2', ('t', 'x'), (2, 3), 'fill_value', 0, 5)
        mv('M_all', 'f8', ('x',), (3,), 'fill_value', -999., slice(None))
        # a missing_value attribute AND a different fill value on the same variable
        mv('M_both', 'f4', ('t', 'x'), (2, 3), 'both', -99., 2)
        # a masked variable that is also packed (scale_factor / add_offset)
        mv('M_pack', 'f8', ('t', 'x'), (2, 3), 'fill_value', -999., 4)
        f.vars['M_pack'].data = f.vars['M_pack'].data * 0.5 + 10.
        f.vars['M_pack'].attrs['scale_factor'] = 0.5
        f.vars['M_pack'].attrs['add_offset'] = 10.
        # ... and one that is only shifted (add_offset without a scale_factor)
        mv('M_off', 'f8', ('t', 'x'), (2, 3), 'fill_value', -999., 3)
        f.vars['M_off'].data = f.vars['M_off'].data + 273.
        f.vars['M_off'].attrs['add_offset'] = 273.
        f.vars['plain'] = RVar(('x',), ramp('f4', (3,), 5), attrs={'units': 'm'})
        f.attrs['title'] = 'masked'
    elif kind == 'attrs':
        vals = OrderedDict([
            ('a_str', 'some text'), ('a_empty', ''), ('a_int', 7), ('a_negint', -3), ('a_float', 2.5),
            ('a_iarr', np.array([1, 2, 3], dtype='i4')), ('a_farr', np.array([1.5, 2.5], dtype='f4')),
            ('a_darr', np.array([0.1, 0.2, 0.3], dtype='f8')), ('a_bool', True),
            ('a_npfloat', np.float32(1.25)), ('a_npint', np.int16(12)), ('a_i1arr', np.array([5], dtype='i1')),
            ('a_unicode', u'\u00b5g/m\u00b3 caf\u00e9'),
            # a name with a double underscore inside (only names that START with an underscore are private)
            ('history__previous', 'earlier text'),
        ])
        if flavour == 'NETCDF4':
            # Python integers beyond 32 bits (millisecond time stamps, 2**31, a large negative number) and a
            # numpy 64-bit integer: only this flavour can hold them
            vals.update([('a_ms', 1695800000123), ('a_2p31', 2 ** 31), ('a_neg64', -(2 ** 40)),
                         ('a_npi8', np.int64(2 ** 33 + 1))])
        for k, v in vals.items():
            f.attrs[k] = v
        va = OrderedDict(vals)
        va['units'] = 'ppb'
        f.vars['A'] = RVar(('t', 'z', 'x'), ramp('f4', (2, 1, 3), 1), attrs=va)
        f.vars['B'] = RVar(('x',), ramp('i4', (3,), 9), attrs=OrderedDict([('long_name', 'B var'),
                                                                         ('valid_range', np.array([0., 100.]))]))
        # packing attributes: the values the file presents are the unpacked ones before and after
        f.vars['P'] = RVar(('t', 'x'), ramp('f8', (2, 3), 40) * 0.5 + 10., attrs=OrderedDict([
            ('units', 'K'), ('scale_factor', 0.5), ('add_offset', 10.)]))
    return f


FILLS = {'i1': (-99, 0), 'u1': (255, 0), 'i2': (-999, 0), 'u2': (65535, 0), 'i4': (-999, 0, -5), 'u4': (4294967295, 0),
         'i8': (-999, 0), 'u8': (18446744073709551615, 0), 'f4': (-999., 0., 1e20), 'f8': (-999., 0., 1e20, -5.)}
PATTERNS = ('one', 'all', 'none', 'first', 'last')
FILLKINDS = ('fill_value', 'missing_value', '_FillValue')


def gramp(dt, shape, base):
    """values that never equal a fill candidate of the dtype in an unmasked cell"""
    n = int(np.prod(shape)) if shape else 1
    if dt == 'S1':
        return np.array(list('abcdefghij'[:n]), dtype='S1').reshape(shape)
    v = 1 + (base + np.arange(n)) % 90 + (np.arange(n) // 90) % 7 * 100
    if np.dtype(dt).kind == 'f':
        v = v + 0.25
    if np.dtype(dt).kind == 'i' and dt != 'i1':
        v = v * np.where(np.arange(n) % 2, -1, 1)
    return v.reshape(shape).astype(dt)


def grid_file(rec, flavour):
    """one dtype, one mask configuration, one variable per dimension shape"""
    f = RFile()
    f.fillkinds = {}
    nt = rec['nt']
    f.dims['t'] = [nt, True]
    f.dims['z'] = [1, False]
    nx = rec.get('nx', 3)
    f.dims['x'] = [nx, False]
    dt = rec['dt']
    shapes = [(('t', 'z', 'x'), (nt, 1, nx)), (('t', 'x'), (nt, nx)), (('x',), (nx,)), (('z', 'x'), (1, nx)), ((), ())]
    if flavour == 'NETCDF4':
        shapes.append((('x', 't'), (nx, nt)))
    if dt == 'S1':
        shapes = [s_ for s_ in shapes if s_[0] in (('x',), ('t', 'x'))]
    for i, (dims, sh) in enumerate(shapes):
        name = 'V%d' % len(dims) + ('r' if dims[:1] == ('x',) and len(dims) == 2 else '')
        d = gramp(dt, sh, 7 * (i + 1))
        if rec['mask'] is None or dt == 'S1':
            f.vars[name] = RVar(dims, d, attrs=OrderedDict([('units', 'u'), ('long_name', name)]))
            continue
        pat, fk, fill = rec['mask']
        m = np.zeros(sh, bool)
        if m.size:
            if pat == 'one':
                m.flat[1 if m.size > 1 else 0] = True
            elif pat == 'all':
                m[...] = True
            elif pat == 'first':
                m.flat[0] = True
            elif pat == 'last':
                m.flat[m.size - 1] = True
        if rec.get('coordname') and dims == ('x',):
            name = 'x'      # a masked variable named after its dimension (a coordinate variable with gaps)
        if rec.get('nonfinite') and np.dtype(dt).kind == 'f' and m.size:
            # valid (unmasked) cells that hold nan / inf next to the missing ones
            d = d.copy()
            free = [q for q in range(m.size) if not m.flat[q]]
            for q, val in zip(free[:1] + free[-1:] if len(free) > 1 else free, (np.nan, np.inf)):
                d.flat[q] = val
        f.vars[name] = RVar(dims, d, m, OrderedDict([('units', 'ppb')]), fill=fill, masked=True)
        f.fillkinds[name] = fk
    f.attrs['title'] = 'grid'
    return f


def grid_recs(tier, flavour):
    dts = list(CLASSIC_DT) + (list(NC4_DT) if flavour == 'NETCDF4' else [])
    out = []
    for dt in dts:
        nts = (2, 1, 0) if tier == 'thorough' else (2, 0)
        for nt in nts:
            out.append({'dt': dt, 'mask': None, 'nt': nt})
        if dt in ('f4', 'i2', 'f8'):
            # long record and fixed dimensions: one record more than 2**10 and 2**11 (writers that work in blocks)
            for nt, nx in ((1025, 3), (3, 1025), (2049, 2)) + (((1024, 3), (1023, 2), (4097, 1)) if tier == 'thorough' else ()):
                out.append({'dt': dt, 'mask': None, 'nt': nt, 'nx': nx})
                if dt == 'f4':
                    out.append({'dt': dt, 'mask': ['one', 'fill_value', -999.], 'nt': nt, 'nx': nx})
        if dt == 'S1':
            continue
        pats = PATTERNS if tier == 'thorough' else PATTERNS[:3]
        for pat in pats:
            for fk in FILLKINDS:
                fills = FILLS[dt] if tier == 'thorough' else FILLS[dt][:2]
                for fill in fills:
                    for nt in ((2, 0) if tier == 'thorough' and pat == 'one' else (2,)):
                        out.append({'dt': dt, 'mask': [pat, fk, fill], 'nt': nt})
                    if pat in ('one', 'none'):
                        out.append({'dt': dt, 'mask': [pat, fk, fill], 'nt': 2, 'coordname': True})
                        if np.dtype(dt).kind == 'f':
                            out.append({'dt': dt, 'mask': [pat, fk, fill], 'nt': 2, 'nonfinite': True})
    return out


def build_real(rf):
    P = lib.pnc()
    f = P.PseudoNetCDFFile()
    for k, v in rf.attrs.items():
        setattr(f, k, v)
    for k, (n, u) in rf.dims.items():
        d = f.createDimension(k, n)
        if u:
            d.setunlimited(True)
    for k, v in rf.vars.items():
        kw = OrderedDict(v.attrs)
        tc = 'c' if v.data.dtype.kind == 'S' else v.data.dtype.char
        if v.masked:
            fk = getattr(rf, 'fillkinds', {}).get(k, 'fill_value')
            if fk == 'both':
                kw['missing_value'] = np.array(-5).astype(v.data.dtype)[()]
                var = f.createVariable(k, tc, v.dims, fill_value=v.fill, **kw)
            elif fk == 'fill_value':
                var = f.createVariable(k, tc, v.dims, fill_value=v.fill, **kw)
            else:
                kw[fk] = np.array(v.fill).astype(v.data.dtype)[()]
                var = f.createVariable(k, tc, v.dims, **kw)
            var[...] = np.ma.MaskedArray(v.data.copy(), mask=v.mask.copy())
        elif getattr(rf, 'bigendian', False) and v.data.dtype.kind in 'iuf' and v.data.dtype.itemsize > 1:
            from PseudoNetCDF.core._variables import PseudoNetCDFVariable
            be = v.data.astype(v.data.dtype.newbyteorder('>'))
            f.variables[k] = PseudoNetCDFVariable(f, k, tc, v.dims, values=be, **kw)
        else:
            var = f.createVariable(k, tc, v.dims, **kw)
            var[...] = v.data.copy()
    return f


class Prop(core.Prop):
    ID = 'C07'
    ENGINE = 'A'
    RULE = ('every (file kind in {dtypes, masked, attrs, dims}, netCDF flavour, complevel, writer entry point, '
            'compressed save earlier in the process or not) is saved and reopened once; non-trivial always '
            '(every case writes and re-reads a multi-variable file); distinct = distinct configurations')
    ASSUMPTIONS = [
        'netCDF4/libnetcdf is the ground truth for what is on disk; attribute values are compared by value '
        '(3 == int64(3), True == int8(1), arrays element-wise); the reserved _FillValue attribute is not a user '
        'attribute: it may appear only on masked variables and must equal their fill value',
        'netCDF4 returns every variable as a masked array: "unmasked" means an all-False mask',
        'Pseudo2NetCDF.create_variable_kwds (class-level state) is cleared before every case; the "prior" axis '
        'performs a compressed save first inside the case',
    ]

    def bounds(self, tier):
        return {'kinds': ['dtypes', 'masked', 'attrs', 'dims', 'bigendian'], 'flavours': FLAVOURS, 'complevel': [0, 1],
                'writers': WRITERS, 'prior_compressed_save': [False, True],
                'grid_files': {fl: len(grid_recs(tier, fl)) for fl in FLAVOURS},
                'grid_axes': {'dtypes': list(CLASSIC_DT) + list(NC4_DT), 'patterns': PATTERNS,
                              'fillkinds': FILLKINDS, 'record_lengths': [2, 1, 0]}}

    def worker_init(self):
        core.load_lib()
        base = '/dev/shm' if os.path.isdir('/dev/shm') else None
        self.tmp = tempfile.mkdtemp(prefix='verif_c07_', dir=base)
        import atexit
        atexit.register(shutil.rmtree, self.tmp, True)

    def groups(self, tier):
        for kind in ('dtypes', 'masked', 'attrs', 'dims', 'bigendian'):
            for fl in FLAVOURS:
                yield {'kind': kind, 'flavour': fl}
        for fl in FLAVOURS:
            for rec in grid_recs(tier, fl):
                yield {'kind': rec, 'flavour': fl, 'tier': tier}

    def expand(self, group):
        if isinstance(group['kind'], dict):
            g = {k: v for k, v in group.items() if k != 'tier'}
            thorough = group['tier'] == 'thorough'
            for cl in ((0, 1) if thorough else (0,)):
                for w in (WRITERS if thorough else ('save',)):
                    yield dict(g, complevel=cl, writer=w, prior=False)
            return
        for cl in (0, 1):
            for w in WRITERS:
                for prior in (False, True):
                    yield dict(group, complevel=cl, writer=w, prior=prior)

    def _write(self, real, path, case):
        P = lib.pnc()
        from PseudoNetCDF.pncgen import pncgen
        kw = dict(format=case['flavour'], verbose=0)
        if case['complevel']:
            kw['complevel'] = case['complevel']
        if case['writer'] == 'save':
            out = real.save(path, **kw)
        elif case['writer'] == 'pncwrite':
            out = P.pncwrite(real, path, **kw)
        else:
            out = pncgen(real, path, **kw)
        out.close()

    def run_one(self, case):
        P = lib.pnc()
        from PseudoNetCDF.pncgen import Pseudo2NetCDF
        Pseudo2NetCDF.create_variable_kwds.clear()
        rf0 = file_for(case['kind'], case['flavour'])
        real = build_real(rf0)
        rf = lib.snap(real, cls='netcdf')
        st = [rfile.canon(rf)]
        kname = case['kind'] if not isinstance(case['kind'], dict) else 'grid'
        sig = ('save', kname, case['flavour'])
        scope = dict(kind=kname, flavour=case['flavour'], complevel=case['complevel'],
                     writer=case['writer'], prior=case['prior'],
                     compressed_nc3=bool((case['complevel'] or case['prior']) and 'NETCDF3' in case['flavour']))
        if kname == 'grid':
            rec = case['kind']
            scope.update(gdtype=rec['dt'], nt=rec['nt'], pattern=rec['mask'][0] if rec['mask'] else 'unmasked',
                         gfillkind=rec['mask'][1] if rec['mask'] else None,
                         gfill=repr(rec['mask'][2]) if rec['mask'] else None)
        path = os.path.join(self.tmp, 'c07_%d.nc' % os.getpid())
        vs = []
        ntrans = 0
        try:
            if case['prior']:
                p2 = path + '.prior'
                if os.path.exists(p2):
                    os.unlink(p2)
                # (every dimension of the earlier file is unlimited: nothing the writer remembers about the
                # dimension NAMES of an earlier file may carry over to a file in which they are fixed)
                pf = file_for('dims', 'NETCDF4')
                for dk in list(pf.dims):
                    pf.dims[dk] = [pf.dims[dk][0], True]
                build_real(pf).save(p2, format='NETCDF4', complevel=1, verbose=0).close()
                ntrans += 1
            if os.path.exists(path):
                os.unlink(path)
            self._write(real, path, case)
            ntrans += 1
        except Exception as e:
            vs.append(viol('save-raises', sig, '%s: %r' % (type(e).__name__, e), exc=type(e).__name__,
                           **scope))
            return result('viol', vs, st, ntrans)
        try:
            back = P.pncopen(path, format='netcdf')
            g = lib.snap(back, cls='netcdf')
            unl = {k: bool(d.isunlimited()) for k, d in back.dimensions.items()}
            back.close()
            ntrans += 1
        except Exception as e:
            vs.append(viol('reopen-raises', sig, '%s: %r' % (type(e).__name__, e), exc=type(e).__name__,
                           **scope))
            return result('viol', vs, st, ntrans)
        # dimensions: names, order, lengths, unlimited
        gd = [(k, n, u) for k, (n, u) in g.dims.items()]
        ed = [(k, n, u) for k, (n, u) in rf.dims.items()]
        if gd != ed:
            what = 'dimension-order' if sorted(gd) == sorted(ed) else 'dimensions'
            vs.append(viol(what, sig, '%r != expected %r' % (gd, ed), **scope))
        if list(g.vars) != list(rf.vars):
            what = 'variable-order' if sorted(g.vars) == sorted(rf.vars) else 'variable-names'
            vs.append(viol(what, sig, '%r != expected %r' % (list(g.vars), list(rf.vars)), **scope))
        # global attributes
        vs.extend(self.attr_diff('global', g.attrs, rf.attrs, None, sig, scope))
        for k, ev in rf.vars.items():
            if k not in g.vars:
                continue
            gv = g.vars[k]
            vscope = dict(scope, var=k, dtype=ev.data.dtype.str, fillkind=rf0.fillkinds.get(k))
            if gv.dims != ev.dims:
                vs.append(viol('variable-dimensions', sig, '%s: %r != %r' % (k, gv.dims, ev.dims), **vscope))
            # (byte order is a property of the in-memory array, not of the variable's type)
            if gv.data.dtype.newbyteorder('=') != ev.data.dtype.newbyteorder('='):
                vs.append(viol('dtype', sig, '%s: %s != %s' % (k, gv.data.dtype, ev.data.dtype), **vscope))
            if gv.data.shape != ev.data.shape:
                vs.append(viol('shape', sig, '%s: %r != %r' % (k, gv.data.shape, ev.data.shape), **vscope))
                continue
            if not np.array_equal(gv.mask, ev.mask):
                vs.append(viol('mask', sig, '%s: mask %s expected %s' % (
                    k, gv.mask.astype(int).ravel().tolist(), ev.mask.astype(int).ravel().tolist()), **vscope))
            else:
                keep = ~ev.mask
                if not rfile.values_identical(gv.data[keep], ev.data[keep]):
                    vs.append(viol('data', sig, '%s: %s expected %s' % (
                        k, rfile._short(gv.data[keep]), rfile._short(ev.data[keep])), **vscope))
            vs.extend(self.attr_diff(k, gv.attrs, ev.attrs, ev, sig, vscope))
        return result('viol' if vs else 'ok', vs, st + [rfile.canon(g)] if not vs else st, ntrans,
                      h64('c07', repr(sorted(case.items(), key=str))), rfile.canon(g) if not vs else None)

    def attr_diff(self, where, got, exp, ev, sig, scope):
        out = []
        gn = [a for a in got if a != '_FillValue']
        en = [a for a in exp if a != '_FillValue']
        if sorted(gn) != sorted(en):
            out.append(viol('attribute-names', sig, '%s: %r != expected %r' % (where, gn, en), **scope))
        for a in en:
            ga_, ea_ = got.get(a), exp[a]
            if isinstance(ea_, np.ndarray) and ea_.size == 1:
                ea_ = ea_.ravel()[0]      # netCDF cannot tell a 1-element array from a scalar
            if isinstance(ga_, np.ndarray) and ga_.size == 1:
                ga_ = ga_.ravel()[0]
            if a in got and not rfile.attr_equal(ga_, ea_):
                out.append(viol('attribute-value', sig, '%s.%s = %r (%s) expected %r (%s)' % (
                    where, a, got[a], type(got[a]).__name__, exp[a], type(exp[a]).__name__),
                    attr=a, **scope))
            elif a in got:
                ga, ea = np.asarray(got[a]), np.asarray(exp[a])
                if ga.dtype.kind != ea.dtype.kind and not (
                        ea.dtype.kind == 'b' or {ga.dtype.kind, ea.dtype.kind} <= {'U', 'S', 'O'}):
                    out.append(viol('attribute-type-kind', sig, '%s.%s came back as %s, was %s' % (
                        where, a, ga.dtype, ea.dtype), attr=a, **scope))
        if '_FillValue' in got:
            if ev is None or not ev.masked:
                out.append(viol('spurious-_FillValue', sig, '%s has _FillValue=%r but was not masked'
                                % (where, got['_FillValue']), **scope))
            elif ev.fill is not None and not any(rfile.attr_equal(
                    np.asarray(got['_FillValue']).astype(ev.data.dtype), np.asarray(c_).astype(ev.data.dtype))
                    for c_ in [ev.fill] + ([exp['missing_value']] if 'missing_value' in exp else [])):
                # (a variable may declare a missing_value next to its fill value: either may be the on-disk fill)
                out.append(viol('_FillValue-value', sig, '%s._FillValue=%r expected %r'
                                % (where, got['_FillValue'], ev.fill), **scope))
        return out
