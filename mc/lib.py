"""Bridge between the reference model and the real library.

to_real(rfile)   builds a fresh real PseudoNetCDFFile through the public API
snap(realfile)   extracts dims/vars/attrs of a real file into an RFile
Only this module (and the property drivers) import PseudoNetCDF.
"""
from collections import OrderedDict

import numpy as np

from .ref.rfile import RFile, RVar
from .engine import core


def pnc():
    return core.load_lib()


def to_real(rf, cls=None):
    P = pnc()
    f = (cls or P.PseudoNetCDFFile)()
    for k, v in rf.attrs.items():
        setattr(f, k, v.copy() if isinstance(v, np.ndarray) else v)
    for k, (n, u) in rf.dims.items():
        d = f.createDimension(k, n)
        if u:
            d.setunlimited(True)
    for k, v in rf.vars.items():
        kw = OrderedDict((ak, (av.copy() if isinstance(av, np.ndarray) else av))
                         for ak, av in v.attrs.items())
        tc = v.data.dtype.str[1:] if v.data.dtype.kind == 'S' and v.data.dtype.itemsize > 1 else (
            'c' if v.data.dtype.kind == 'S' else v.data.dtype.char)
        if v.masked:
            fv = kw.pop('fill_value', None)
            var = f.createVariable(k, tc, v.dims, fill_value=v.fill if v.fill is not None else fv, **kw)
            var[...] = np.ma.MaskedArray(v.data.copy(), mask=v.mask.copy())
        else:
            var = f.createVariable(k, tc, v.dims, **kw)
            var[...] = v.data.copy()
    if rf.coords:
        f.setCoords(sorted(rf.coords))
    return f


def _attrs_of(o):
    out = OrderedDict()
    if not hasattr(o, 'ncattrs'):
        return out
    for k in o.ncattrs():
        out[k] = getattr(o, k)
    return out


def snap_var(v):
    arr = v[...]
    if arr is np.ma.masked:
        # a fully masked scalar read from netCDF4 is the float64 constant numpy.ma.masked:
        # the value is unobservable, the type is the variable's
        arr = np.ma.MaskedArray(np.zeros((), dtype=np.dtype(v.dtype)), mask=True)
        try:
            arr.fill_value = v.getncattr('_FillValue')
        except Exception:
            pass
    mask = np.ma.getmaskarray(arr)
    data = np.array(np.ma.getdata(arr))
    if isinstance(mask, np.ndarray):
        mask = np.array(mask, dtype=bool).reshape(data.shape)
    masked = isinstance(arr, np.ma.MaskedArray)
    fill = None
    if masked:
        try:
            fill = np.asarray(arr.fill_value)
            if fill.dtype.kind in 'fiub' and data.dtype.kind in 'fiub':
                with np.errstate(all='ignore'):
                    fill = fill.astype(data.dtype)   # numpy casts fill values lazily
            fill = fill.item()
        except Exception:
            fill = None
    attrs = _attrs_of(v)
    if not any(a in attrs for a in ('fill_value', 'missing_value', '_FillValue')):
        # numpy's own default fill of an array that declares none is set lazily (reading .fill_value of
        # the source changes what a later reduction hands on): not part of the file
        fill = None
    rv = RVar(tuple(v.dimensions), data, mask, attrs, fill=None, masked=masked)
    rv.fill = fill
    return rv


def snap(f, cls=None):
    o = RFile()
    o.cls = cls if cls is not None else type(f).__name__
    for k, d in f.dimensions.items():
        o.dims[k] = [len(d), bool(d.isunlimited())]
    for k in list(f.variables.keys()):
        o.vars[k] = snap_var(f.variables[k])
    o.attrs = _attrs_of(f)
    try:
        o.coords = set(f.getCoords())
    except Exception:
        o.coords = set()
    return o


def wellformed(f):
    """C01 invariant on a real file; returns list of problems."""
    out = []
    dims = f.dimensions
    for k in list(f.variables.keys()):
        try:
            v = f.variables[k]
        except Exception as e:
            out.append('variable %s listed but not retrievable: %r' % (k, e))
            continue
        vd = getattr(v, 'dimensions', None)
        if not isinstance(vd, tuple):
            out.append('variable %s has no dimension tuple (%r)' % (k, vd))
            continue
        missing = [d for d in vd if d not in dims]
        if missing:
            out.append('variable %s uses dimensions %r absent from file %r'
                       % (k, missing, list(dims)))
            continue
        want = tuple(len(dims[d]) for d in vd)
        if tuple(v.shape) != want:
            out.append('variable %s%r shape %r != dimension lengths %r'
                       % (k, vd, tuple(v.shape), want))
        if not hasattr(v, 'ncattrs'):
            out.append('variable %s (%s) has no attribute interface (ncattrs)' % (k, type(v).__name__))
            continue
        for a in v.ncattrs():
            try:
                getattr(v, a)
            except Exception as e:
                out.append('variable %s attribute %s listed but not retrievable' % (k, a))
    for a in f.ncattrs():
        try:
            getattr(f, a)
        except Exception:
            out.append('global attribute %s listed but not retrievable' % a)
    return out


def deep_hash(f):
    """Hash of everything observable about a file INCLUDING raw buffer bytes
    under masked cells, fill values, attribute values, variable order (C05)."""
    import hashlib
    from .ref.rfile import _attr_canon
    h = hashlib.blake2b(digest_size=16)

    def up(o):
        h.update(repr(o).encode())
        h.update(b'\x1e')
    up(type(f).__name__)
    for k, d in f.dimensions.items():
        up(('d', k, len(d), bool(d.isunlimited())))
    for k in list(f.variables.keys()):
        v = f.variables[k]
        arr = v[...]
        data = np.ascontiguousarray(np.ma.getdata(arr))
        mask = np.ascontiguousarray(np.ma.getmaskarray(arr))
        up(('v', k, tuple(getattr(v, 'dimensions', ())), str(data.dtype), data.shape,
            isinstance(arr, np.ma.MaskedArray)))
        h.update(data.tobytes())
        h.update(mask.tobytes())
        if isinstance(arr, np.ma.MaskedArray):
            try:
                fv = arr.fill_value      # numpy initialises/casts this lazily: compare by value
                fa = np.asarray(fv)
                if fa.dtype.kind in 'fiub' and data.dtype.kind in 'fiub':
                    with np.errstate(all='ignore'):
                        fa = fa.astype(data.dtype)
                up(('fill', fa.dtype.str, fa.tobytes()))
            except Exception:
                pass
        if hasattr(v, 'ncattrs'):
            for a in v.ncattrs():
                up(('va', a, _attr_canon(getattr(v, a))))
    for a in f.ncattrs():
        up(('ga', a, _attr_canon(getattr(f, a))))
    try:
        up(tuple(sorted(f.getCoords())))
    except Exception:
        pass
    return h.digest()


def deep_diff(f, before_snap):
    """human-readable difference between file f now and an RFile snapshot"""
    from .ref import rfile
    now = snap(f)
    d = rfile.file_diff(now, before_snap, fill=True, order=True, dimorder=True)
    return d


def scribble(f):
    """overwrite every variable of file f (data and mask) with sentinels"""
    n = 0
    for k in list(f.variables.keys()):
        v = f.variables[k]
        try:
            if v.dtype.kind in 'SU':
                v[...] = b'#'
            else:
                v[...] = np.array(-12345).astype(v.dtype)
            if isinstance(v, np.ma.MaskedArray):
                v[...] = np.ma.masked
            n += 1
        except Exception:
            pass
    return n


class _NoStamps(object):
    """view of a file hiding the IOAPI wall-clock attributes"""
    STAMPS = ('CDATE', 'CTIME', 'WDATE', 'WTIME')

    def __init__(self, f):
        self._f = f
        self.dimensions = f.dimensions
        self.variables = f.variables

    def ncattrs(self):
        return [a for a in self._f.ncattrs() if a not in self.STAMPS]

    def getCoords(self):
        return self._f.getCoords()

    def __getattr__(self, k):
        return getattr(self._f, k)


def deep_hash_nostamps(f):
    w = _NoStamps(f)
    import hashlib
    return hashlib.blake2b(type(f).__name__.encode() + deep_hash(w), digest_size=16).digest()
