"""C16 - value-to-index lookup returns the containing or nearest cell (Engine A)."""
import itertools
import datetime

import numpy as np

from ..engine import core
from ..engine.core import viol, result, h64
from .. import lib

ALPHA = (0., 1., 2., 4., 7.)
EPS = 1e-6
METHODS = ('nearest', 'bounds', 'exact')


def coords(tier):
    out = []
    for n in (2, 3, 4):
        for c in itertools.combinations(ALPHA, n):
            out.append(list(c))
            out.append(list(c[::-1]))
    # a long irregular coordinate (numpy switches membership/search algorithms with the array sizes)
    long_ = np.cumsum([1., 2., 1., 3.] * 8).tolist()
    out.append(long_)
    out.append(long_[::-1])
    if tier == 'thorough':
        out.append([-3., -1., 0., 2.5, 2.75])
        out.append([10., 0., -10.])
    return out


def edges_for(c):
    """contiguous cell edges: interior midpoints, outer edges half a step out"""
    c = np.asarray(c, 'd')
    mid = (c[:-1] + c[1:]) / 2.
    return np.concatenate([[c[0] - (c[1] - c[0]) / 2.], mid, [c[-1] + (c[-1] - c[-2]) / 2.]])


def queries(c, e):
    q = set()
    for v in c:
        q.update([v, v - EPS, v + EPS])
    for v in e:
        q.update([v, v - EPS, v + EPS])
    for a, b in zip(c[:-1], c[1:]):
        m = (a + b) / 2.
        q.update([m, m - EPS, m + EPS])
    lo, hi = min(e[0], e[-1], c[0], c[-1]), max(e[0], e[-1], c[0], c[-1])
    q.update([lo - 1., lo - 100., hi + 1., hi + 100.])
    return sorted(q)


def brute(method, c, e, v, has_bounds, lr='None'):
    """returns (set of acceptable indices or None for 'must be masked / out of range', in_range)"""
    c = np.asarray(c, 'd')
    n = c.size
    if method == 'exact':
        hit = [i for i in range(n) if c[i] == v]
        return (set(hit) if hit else None), bool(hit)
    if method == 'nearest':
        lo, hi = (min(e[0], e[-1]), max(e[0], e[-1])) if has_bounds else (c.min(), c.max())
        inr = lo <= v <= hi
        if lr == 'nan' and not (c.min() <= v <= c.max()):
            # left/right are numpy.interp fills for values beyond the first/last
            # coordinate VALUE: the caller asked for nan there.  Inside the outer
            # half cells nothing is demanded (neither a cell nor a rejection).
            inr = None if inr else False
        d = np.abs(c - v)
        ok = set(int(i) for i in np.where(d == d.min())[0])
        return ok, inr
    # bounds
    lo, hi = min(e[0], e[-1]), max(e[0], e[-1])
    inr = lo <= v <= hi
    ok = set()
    for i in range(n):
        a, b = sorted((e[i], e[i + 1]))
        if a <= v <= b:
            ok.add(i)
    return (ok if ok else None), inr


class Prop(core.Prop):
    ID = 'C16'
    ENGINE = 'A'
    RULE = ('every strictly monotone coordinate of length 2-4 over {0,1,2,4,7} (both directions) x 3 bounds '
            'representations x 3 methods x clean {none,mask} x bounds {ignore,warn,error} x left/right '
            '{None,nan} is queried at every centre, edge, midpoint, each +-1e-6, and 4 outside points, in-range '
            'and out-of-range points in separate calls; plus datetime front-ends on CF time coordinates; '
            'non-trivial iff the call contains a query that is not a coordinate value; distinct = distinct '
            '(coordinate, representation, options, query set)')
    ASSUMPTIONS = [
        'closed cells: a value on an interior edge may be reported in either adjacent cell, a value at an exact '
        'midpoint may round to either neighbour; first/last edge belong to the first/last cell (DESIGN 4.1)',
        'without a bounds variable only queries between the first and last coordinate value are judged for '
        'method "bounds" (the file does not define the outer edges)',
        'out-of-range: bounds=error must raise, bounds=warn must warn, left/right=nan with clean=mask must mask; '
        'with bounds=ignore and no nan fill the clamped end index is "as requested"',
    ]

    def bounds(self, tier):
        return {'coordinates': len(coords(tier)), 'representations': ['none', 'edges1d', 'nx2'],
                'methods': METHODS, 'clean': ['none', 'mask'], 'bounds_opt': ['ignore', 'warn', 'error'],
                'leftright': ['None', 'nan'], 'eps': EPS, 'coordinate_dtypes': ['f8', 'i4', 'f4'],
                'long_coordinate_cells': 32}

    def worker_init(self):
        core.load_lib()
        import PseudoNetCDF.core._files as F
        self.F = F
        self.warned = []
        F.warn = lambda *a, **k: self.warned.append(a[0] if a else '')

    def groups(self, tier):
        for ci, c in enumerate(coords(tier)):
            for rep in ('none', 'edges1d', 'nx2'):
                yield {'coord': c, 'rep': rep}
                if all(float(v).is_integer() for v in c) and (len(c) <= 3 or tier == 'thorough' or len(c) > 4):
                    # the same coordinate stored as 32-bit integers / 32-bit floats; queries stay float64
                    yield {'coord': c, 'rep': rep, 'ctype': 'i'}
                    yield {'coord': c, 'rep': rep, 'ctype': 'f'}
                    # unsigned storage (level numbers, category codes): differences must not wrap around
                    if min(c) >= 0 and max(c) <= 255:
                        yield {'coord': c, 'rep': rep, 'ctype': 'B'}
        for unit in ('hours', 'days'):
            for desc in (False, True):
                for tzkind in ('utc', 'naive', '+0530', '-0500'):
                    yield {'time': True, 'unit': unit, 'desc': desc, 'tz': tzkind}
                # a 365-day calendar declared on the time VARIABLE, queries after the leap day it lacks
                yield {'time': True, 'unit': unit, 'desc': desc, 'tz': 'utc', 'calendar': 'noleap'}
        # proleptic Gregorian calendar counted from a reference before the Julian/Gregorian switch of 1582
        for unit in ('hours', 'days'):
            for desc in (False, True):
                for refy in ((1, 1, 1), (1582, 10, 1)):
                    yield {'time': True, 'unit': unit, 'desc': desc, 'tz': 'utc', 'calendar': 'proleptic_gregorian',
                           'ancient': list(refy)}
        # reference instants with minutes and seconds; units down to seconds; exact look-up of the record times
        for unit in ('hours', 'days', 'minutes', 'seconds'):
            for desc in (False, True):
                for refsec in (0, 30, 450):
                    if unit in ('hours', 'days') and refsec == 0:
                        continue
                    for tzkind in ('utc', 'naive'):
                        yield {'time': True, 'unit': unit, 'desc': desc, 'tz': tzkind, 'refsec': refsec}

    def expand(self, group):
        if group.get('time'):
            for method in ('nearest', 'bounds') + (('exact',) if ('refsec' in group or 'ancient' in group) else ()):
                yield dict(group, method=method)
            return
        for method in METHODS:
            for clean in ('none', 'mask'):
                for bopt in ('ignore', 'warn', 'error'):
                    for lr in ('None', 'nan'):
                        for part in ('in', 'out-far', 'out-near-lo', 'out-near-hi'):
                            yield dict(group, method=method, clean=clean, bounds=bopt, lr=lr, part=part)
                    # a fill on ONE side only: 'left' is the side of the smaller coordinate values
                    for lr in ('left-nan', 'right-nan'):
                        for part in ('in', 'out-near-lo', 'out-near-hi'):
                            yield dict(group, method=method, clean=clean, bounds=bopt, lr=lr, part=part)

    def build(self, c, rep, ctype='d'):
        P = lib.pnc()
        f = P.PseudoNetCDFFile()
        n = len(c)
        f.createDimension('x', n)
        v = f.createVariable('x', ctype, ('x',))
        v[:] = c
        e = edges_for(c)
        if rep == 'edges1d':
            f.createDimension('xe', n + 1)
            b = f.createVariable('x_bounds', 'd', ('xe',))
            b[:] = e
        elif rep == 'nx2':
            f.createDimension('nv', 2)
            b = f.createVariable('x_bounds', 'd', ('x', 'nv'))
            b[:, 0] = e[:-1]
            b[:, 1] = e[1:]
        return f, e

    def run_one(self, case):
        if case.get('time'):
            return self.run_time(case)
        c, rep = case['coord'], case['rep']
        method, clean, bopt, lr, part = (case[k] for k in ('method', 'clean', 'bounds', 'lr', 'part'))
        ctype = case.get('ctype', 'd')
        f, e = self.build(c, rep, ctype)
        has_b = rep != 'none'
        uniform = bool(np.allclose(np.diff(c), np.diff(c)[0]))
        before = np.array(f.variables['x'][...]).tobytes()
        qs = queries(c, e)
        judged = []
        for v in qs:
            # (a one-sided fill is classified like a two-sided one: between the outer coordinate value and
            # the outer edge nothing is demanded)
            ok, inr = brute(method, c, e, v, has_b, 'None' if lr == 'None' else 'nan')
            if method == 'bounds' and not has_b and not (min(c) <= v <= max(c)) and not uniform:
                continue          # outer edges undefined by the file (uniform grids: half a step out)
            lo_, hi_ = min(e[0], e[-1]), max(e[0], e[-1])
            if method == 'nearest' and not has_b:
                lo_, hi_ = min(c), max(c)
            if inr is None:
                continue
            near = abs(v - lo_) < 1e-3 or abs(v - hi_) < 1e-3
            if part == 'in' and inr:
                judged.append((v, ok, inr))
            elif part == 'out-far' and not inr and not near:
                judged.append((v, ok, inr))
            elif part == 'out-near-lo' and not inr and near and v < lo_:
                judged.append((v, ok, inr))
            elif part == 'out-near-hi' and not inr and near and v > hi_:
                judged.append((v, ok, inr))
        direction = 'asc' if c[0] < c[-1] else 'desc'
        scope = dict(method=method, rep=rep, direction=direction, clean=clean, bopt=bopt, lr=lr, part=part,
                     uniform=uniform, n=len(c), ctype=ctype)
        sig = ('val2idx', method, direction, part.split('-')[0])
        st = [h64('c16', c, rep, ctype)]
        if not judged:
            return result('empty', [], st, 0)
        vals = np.array([j[0] for j in judged])
        kw = dict(method=method, clean=clean, bounds=bopt)
        if lr == 'nan':
            kw.update(left=np.nan, right=np.nan)
        elif lr == 'left-nan':
            kw.update(left=np.nan)
        elif lr == 'right-nan':
            kw.update(right=np.nan)
        self.warned[:] = []
        vs = []
        raised = None
        try:
            with np.errstate(all='ignore'):
                idx = f.val2idx('x', vals, **kw)
        except Exception as ex:
            raised = ex
        after = np.array(f.variables['x'][...]).tobytes()
        if after != before:
            vs.append(viol('coordinate-modified', sig, 'val2idx changed the coordinate variable', **scope))
        if part == 'in':
            if raised is not None:
                vs.append(viol('in-range-raises', sig, '%s: %r for in-range values %s of coordinate %s'
                               % (type(raised).__name__, raised, vals.tolist(), c),
                               exc=type(raised).__name__, **scope))
                return result('viol', vs, st)
            if self.warned and bopt != 'ignore' and any('out of bounds' in str(w) for w in self.warned):
                vs.append(viol('in-range-warned', sig, 'out-of-bounds warning for in-range values %s: %s'
                               % (vals.tolist(), self.warned[:1]), **scope))
            got = np.ma.getdata(idx)
            gm = np.ma.getmaskarray(idx)
            bad = []
            for (v, ok, inr), g, m in zip(judged, np.atleast_1d(got), np.atleast_1d(gm)):
                if ok is None:          # exact: no equal coordinate -> must be masked
                    if not m:
                        bad.append((v, int(g), 'masked'))
                elif m or int(g) not in ok:
                    bad.append((v, 'masked' if m else int(g), sorted(ok)))
            if bad:
                vs.append(viol('wrong-cell', sig, 'coordinate %s edges %s: %d of %d wrong, e.g. value %r -> %r '
                               'expected %r' % (c, e.tolist(), len(bad), len(judged), bad[0][0], bad[0][1],
                                                bad[0][2]), **scope))
        else:
            if method == 'exact':
                # out of range values are simply not coordinate values: must be masked
                if raised is None:
                    gm = np.ma.getmaskarray(idx)
                    if not np.all(gm):
                        vs.append(viol('out-of-range-reported-in-cell', sig,
                                       'exact lookup of %s returned %s' % (vals.tolist(), idx), **scope))
                elif bopt != 'error':
                    vs.append(viol('out-of-range-raises', sig, '%r' % raised, exc=type(raised).__name__,
                                   **scope))
            elif bopt == 'error':
                if raised is None or not isinstance(raised, ValueError):
                    vs.append(viol('out-of-range-not-rejected', sig,
                                   'bounds="error" but values %s gave %r' % (vals.tolist(),
                                                                              raised if raised else idx),
                                   **scope))
            else:
                if raised is not None:
                    vs.append(viol('out-of-range-raises', sig, '%s: %r' % (type(raised).__name__, raised),
                                   exc=type(raised).__name__, **scope))
                else:
                    if bopt == 'warn' and not any('out of bounds' in str(w) for w in self.warned):
                        vs.append(viol('out-of-range-not-warned', sig,
                                       'bounds="warn" but no warning for %s' % vals.tolist(), **scope))
                    gm = np.atleast_1d(np.ma.getmaskarray(idx))
                    got = np.atleast_1d(np.ma.getdata(idx))
                    side_filled = (lr == 'left-nan' and part == 'out-near-lo') or \
                        (lr == 'right-nan' and part == 'out-near-hi')
                    if lr in ('left-nan', 'right-nan') and clean == 'mask' and not side_filled:
                        # the fill was asked for on the OTHER side: these queries take the end cell, unmasked
                        if gm.any() and method != 'exact':
                            vs.append(viol('wrong-side-masked', sig, 'only %s is nan, but values %s beyond the '
                                           'other end came back masked: %s' % (lr.split('-')[0], vals.tolist(), idx),
                                           **scope))
                    elif (lr == 'nan' or side_filled) and clean == 'mask':
                        if not gm.all():
                            vs.append(viol('out-of-range-not-masked', sig,
                                           'left/right=nan, clean=mask: values %s -> %s' % (vals.tolist(), idx),
                                           **scope))
                    elif bopt == 'ignore' and (lr == 'nan' or side_filled) and clean == 'none':
                        pass      # nan cast to an integer: unspecified, the user asked for no cleaning
                    elif method == 'bounds' and bopt == 'ignore':
                        pass      # clamped end cell, bounds ignored as requested
        if raised is None and not vs:
            # the lookup is element-wise: repeating and reordering the queries must not change any answer
            vals2 = np.concatenate([vals[::-1], vals[::2], vals])
            try:
                with np.errstate(all='ignore'):
                    idx2 = f.val2idx('x', vals2, **kw)
                exp2 = np.ma.concatenate([np.ma.atleast_1d(idx)[::-1], np.ma.atleast_1d(idx)[::2],
                                          np.ma.atleast_1d(idx)])
                same = np.array_equal(np.ma.getmaskarray(idx2), np.ma.getmaskarray(exp2)) and \
                    np.array_equal(np.ma.filled(idx2, -9), np.ma.filled(exp2, -9))
                if not same:
                    k = int(np.flatnonzero((np.ma.filled(idx2, -9) != np.ma.filled(exp2, -9)) |
                                           (np.ma.getmaskarray(idx2) != np.ma.getmaskarray(exp2)))[0])
                    vs.append(viol('answer-depends-on-other-queries', sig,
                                   'coordinate %s: value %r alone -> %s, among repeated/reordered queries -> %s'
                                   % (c, float(vals2[k]), exp2[k], idx2[k]), **scope))
            except Exception as ex:
                vs.append(viol('in-range-raises', sig, 'repeated/reordered queries: %s: %r'
                               % (type(ex).__name__, ex), exc=type(ex).__name__, **scope))
        nontriv = h64('c16', c, rep, ctype, method, clean, bopt, lr, part) if any(
            v not in c for v in vals) else None
        return result('viol' if vs else ('ok-' + part), vs, st, 1, nontriv,
                      h64(repr(raised) if raised else np.ma.filled(idx, -9).tolist()) if not vs else None)

    def run_time(self, case):
        P = lib.pnc()
        unit, desc, tz, method = case['unit'], case['desc'], case['tz'], case['method']
        vals = np.array([0., 6., 12., 30.])
        if desc:
            vals = vals[::-1].copy()
        f = P.PseudoNetCDFFile()
        f.createDimension('time', vals.size)
        tv = f.createVariable('time', 'd', ('time',))
        tv[:] = vals
        tv.units = '%s since 2000-02-28 12:00:00+0000' % unit
        ref = datetime.datetime(2000, 2, 28, 12, tzinfo=datetime.timezone.utc)
        if case.get('refsec'):
            ref = ref + datetime.timedelta(seconds=case['refsec'])
            tv.units = '%s since %s+0000' % (unit, ref.strftime('%Y-%m-%d %H:%M:%S'))
        step = datetime.timedelta(**{unit: 1})
        base = 0.
        if case.get('ancient'):
            # (Python's datetime IS the proleptic Gregorian calendar)
            y0, m0, d0 = case['ancient']
            anc = datetime.datetime(y0, m0, d0, tzinfo=datetime.timezone.utc)
            base = (ref - anc) / step          # the same instants as before, counted from the ancient reference
            tv.units = '%s since %04d-%02d-%02d 00:00:00' % (unit, y0, m0, d0)
            tv[:] = vals + base
        qnum = [0., 1., 2.9, 3.1, 6., 9., 11., 21., 29., 30.]
        # a tenth of a second either side of every interior cell edge (3, 9, 21) and of a centre
        tenth = datetime.timedelta(seconds=0.1) / step
        qnum += [e_ + s_ * tenth for e_ in (3., 9., 21., 6.) for s_ in (-1, 1)]
        if method == 'exact':
            qnum = [0., 6., 12., 30.]
        qdt = [ref + q * step for q in qnum]
        if case.get('ancient'):
            tv.calendar = case['calendar']
        elif case.get('calendar'):
            tv.calendar = case['calendar']
            # in a calendar without 29 February the instant q units after the reference is one real day later
            # once it passes 28 Feb 24:00 (12 hours after the reference)
            def real(q):
                t = ref + q * step
                return t + datetime.timedelta(days=1) if t >= datetime.datetime(2000, 2, 29, tzinfo=datetime.timezone.utc) else t
            qdt = [real(q) for q in qnum]
        if tz == 'naive':
            qdt = [t.replace(tzinfo=None) for t in qdt]
        elif tz == '+0530':
            z = datetime.timezone(datetime.timedelta(hours=5, minutes=30))
            qdt = [t.astimezone(z) for t in qdt]
        elif tz == '-0500':
            z = datetime.timezone(datetime.timedelta(hours=-5))
            qdt = [t.astimezone(z) for t in qdt]
        c = vals.tolist()
        e = edges_for(c)
        scope = dict(method=method, rep='none', direction='desc' if desc else 'asc', tz=tz, unit=unit,
                     front='time2idx', calendar=case.get('calendar') or 'standard', refsec=case.get('refsec', 0),
                     ancient=bool(case.get('ancient')))
        sig = ('time2idx', method, scope['direction'], tz)
        st = [h64('c16t', unit, desc, tz, case.get('calendar'), case.get('refsec'), case.get('ancient'))]
        self.warned[:] = []
        vs = []
        try:
            idx = f.time2idx(np.array(qdt), dim='time', method=method, bounds='ignore')
        except Exception as ex:
            vs.append(viol('in-range-raises', sig, '%s: %r' % (type(ex).__name__, ex),
                           exc=type(ex).__name__, **scope))
            return result('viol', vs, st)
        got = np.atleast_1d(np.ma.getdata(idx))
        gm = np.atleast_1d(np.ma.getmaskarray(idx))
        bad = []
        for q, g, m in zip(qnum, got, gm):
            ok, inr = brute(method, c, e, q, False)
            if m or ok is None or int(g) not in ok:
                bad.append((q, 'masked' if m else int(g), sorted(ok) if ok else None))
        if bad:
            vs.append(viol('wrong-cell', sig, 'time coordinate %s: value %r -> %r expected %r (%d wrong)'
                           % (c, bad[0][0], bad[0][1], bad[0][2], len(bad)), **scope))
        return result('viol' if vs else 'ok-time', vs, st, 1, h64('c16t', unit, desc, tz, method, case.get('calendar'), case.get('refsec'), case.get('ancient')),
                      h64(got.tolist()) if not vs else None)
