"""C17 - interpolation is linear-exact; conservative regridding conserves column mass (Engine A)."""
import itertools
from collections import OrderedDict

import numpy as np

from ..engine import core
from ..engine.core import viol, result, h64
from ..ref import rfile
from .. import lib, ioapi_u

ALPHA = (0., 1., 2., 4., 7., 8.)
SIGMA = (1., .875, .75, .5, .25, .125, 0.)      # dyadic: exact in float32
TOL = 1e-12


def monotone_vectors(maxlen, minlen=1):
    out = []
    for n in range(minlen, maxlen + 1):
        for c in itertools.combinations(ALPHA, n):
            out.append(list(c))
    return out


THIN = 2. ** -17      # a layer 7.6e-6 thick (high-top grids: the last edges before the model top)


def sigma_grids():
    inner = SIGMA[1:-1]
    out = []
    for r in range(0, len(inner) + 1):
        for c in itertools.combinations(inner, r):
            out.append([1.] + list(c) + [0.])
    # grids with a very thin top layer, alone and next to ordinary levels
    out += [[1., THIN, 0.], [1., .5, THIN, 0.], [1., .75, .25, 2 * THIN, THIN, 0.]]
    return out


def relerr(a, b):
    a, b = np.asarray(a, 'd'), np.asarray(b, 'd')
    scale = np.maximum(np.abs(b), 1.)
    return float(np.max(np.abs(a - b) / scale)) if a.size else 0.


class Prop(core.Prop):
    ID = 'C17'
    ENGINE = 'A'
    RULE = ('weights: every pair (source of 2-4 levels, target of 1-4 levels) of strictly increasing vectors over '
            '{0,1,2,4,7,8}, both directions of the source, extrapolate on/off; applied through interpDimension '
            'along every dimension of every variable of a universe file and through interpvars; sigma: every ordered '
            'pair of the 32 sigma grids over dyadic levels sharing top and bottom, through sigma2coeff and '
            'ioapi interpSigma(conserve); non-trivial iff target != source; distinct = distinct (source, target, options)')
    ASSUMPTIONS = [
        'float64 algebraic laws are checked to a relative tolerance of 1e-12; sigma levels are dyadic so the '
        'float32 VGLVLS attribute holds them exactly',
        'a single source level cannot define a linear interpolant: raising there is accepted',
    ]

    def bounds(self, tier):
        return {'alphabet': ALPHA, 'source_levels': '2-4' if tier == 'thorough' else '2-3',
                'target_levels': '1-4' if tier == 'thorough' else '1-3',
                'sigma_grids': len(sigma_grids()), 'tolerance': TOL}

    def groups(self, tier):
        smax = 4 if tier == 'thorough' else 3
        for src in monotone_vectors(smax, 2):
            yield {'part': 'weights', 'src': src, 'tmax': smax}
        for src in monotone_vectors(smax, 2):
            if len(src) == 3 or tier == 'thorough':
                yield {'part': 'apply', 'src': src}
        grids = sigma_grids()
        for gi in range(len(grids)):
            yield {'part': 'sigma', 'from': grids[gi]}

    def expand(self, group):
        if group['part'] == 'weights':
            for tgt in monotone_vectors(group['tmax'], 1):
                for desc in (False, True):
                    for ext in (False, True):
                        yield {'part': 'weights', 'src': group['src'][::-1] if desc else group['src'],
                               'tgt': tgt, 'extrapolate': ext}
                    # integer-typed source coordinate (hours, level numbers) with fractional targets
                    yield {'part': 'weights', 'src': group['src'][::-1] if desc else group['src'],
                           'tgt': [t_ + 0.5 for t_ in tgt], 'extrapolate': False, 'srcint': True}
                    yield {'part': 'weights', 'src': group['src'][::-1] if desc else group['src'],
                           'tgt': [t_ + 0.25 for t_ in tgt], 'extrapolate': True, 'srcint': True}
        elif group['part'] == 'apply':
            n = len(group['src'])
            mids = [(a + b) / 2. for a, b in zip(group['src'][:-1], group['src'][1:])]
            tg = [[group['src'][0] + .5, group['src'][-1] - .5], list(group['src']), mids,
                  # as many targets as sources, but different ones (square, non-symmetric weights)
                  [group['src'][0]] + mids]
            for tgt in tg:
                for form in ('interpDimension', 'interpvars'):
                    yield {'part': 'apply', 'src': group['src'], 'tgt': tgt, 'form': form}
                    yield {'part': 'apply', 'src': group['src'], 'tgt': tgt, 'form': form, 'cint': True}
                    # a variable with missing cells is interpolated first: the later, complete variables stay exact
                    yield {'part': 'apply', 'src': group['src'], 'tgt': tgt, 'form': form, 'maskfirst': True}
                # the old coordinate is taken from another 1-D variable (coordkey): the variable named like the
                # dimension is then a variable like any other
                yield {'part': 'apply', 'src': group['src'], 'tgt': tgt, 'form': 'interpDimension', 'coordkey': True}
            # large-magnitude coordinates (seconds since 1970, Pa): as many targets as sources, each shifted by a
            # quarter of a step - a relative change far below 1e-5
            for form in ('interpDimension', 'interpvars'):
                yield {'part': 'apply', 'src': group['src'], 'tgt': list(group['src']), 'form': form, 'big': True}
        else:
            for to in sigma_grids():
                yield {'part': 'sigma', 'from': group['from'], 'to': to}

    def run_one(self, case):
        return getattr(self, 'run_' + case['part'])(case)

    def run_weights(self, case):
        from PseudoNetCDF.coordutil import getinterpweights
        xs = np.array(case['src'], 'i4' if case.get('srcint') else 'd')
        nxs = np.array(case['tgt'], 'd')
        ext = case['extrapolate']
        st = [h64('w', case['src']), h64('w', case['src'], case['tgt'], ext, case.get('srcint'))]
        sig = ('getinterpweights', 'extrapolate' if ext else 'clip')
        scope = dict(extrapolate=ext, nsrc=len(xs), ntgt=len(nxs), desc=bool(xs[0] > xs[-1]),
                     srcint=bool(case.get('srcint')))
        vs = []
        try:
            w = np.asarray(getinterpweights(xs, nxs, extrapolate=ext), 'd')
            xs = xs.astype('d')
        except Exception as e:
            vs.append(viol('raises', sig, '%s: %r for xs=%s nxs=%s' % (type(e).__name__, e, xs, nxs),
                           exc=type(e).__name__, **scope))
            return result('viol', vs, st)
        if w.shape != (xs.size, nxs.size):
            vs.append(viol('shape', sig, '%r != %r' % (w.shape, (xs.size, nxs.size)), **scope))
            return result('viol', vs, st)
        inside = (nxs >= xs.min()) & (nxs <= xs.max())
        if not ext and (w < -TOL).any():
            vs.append(viol('negative-weight', sig, 'xs=%s nxs=%s weights=%s' % (xs, nxs, w.tolist()), **scope))
        if relerr(w.sum(0), np.ones(nxs.size)) > TOL:
            vs.append(viol('partition-of-unity', sig, 'xs=%s nxs=%s column sums %s' % (xs, nxs, w.sum(0)),
                           **scope))
        for a, b in ((3., 0.), (1.5, -2.), (0., 1.)):
            y = a + b * xs
            got = (w * y[:, None]).sum(0)
            want = a + b * nxs
            sel = inside | ext
            if sel.any() and relerr(got[sel], want[sel]) > TOL:
                vs.append(viol('linear-exactness', sig, 'xs=%s nxs=%s profile %g%+gx -> %s expected %s'
                               % (xs, nxs, a, b, got, want), **scope))
                break
        if not ext and (~inside).any():
            # edge continuation: outside points take the nearest edge value
            y = 10. + xs
            got = (w * y[:, None]).sum(0)
            want = 10. + np.clip(nxs, xs.min(), xs.max())
            if relerr(got, want) > TOL:
                vs.append(viol('edge-continuation', sig, 'xs=%s nxs=%s -> %s expected %s' % (xs, nxs, got, want),
                               **scope))
        if xs.size == nxs.size and np.array_equal(xs, nxs):
            if relerr(w, np.eye(xs.size)) > TOL:
                vs.append(viol('identity', sig, 'xs==nxs=%s weights %s' % (xs, w.tolist()), **scope))
        nt = None if (xs.size == nxs.size and np.array_equal(xs, nxs)) else h64('w', case['src'], case['tgt'], ext,
                                                                                 case.get('srcint'))
        return result('viol' if vs else 'ok-weights', vs, st, 1, nt, h64(w.tobytes()) if not vs else None)

    def run_apply(self, case):
        P = lib.pnc()
        from PseudoNetCDF.coordutil import getinterpweights
        src, tgt, form = case['src'], case['tgt'], case['form']
        n = len(src)
        st = [h64('a', src), h64('a', src, tgt, form, case.get('cint'), case.get('big'), case.get('maskfirst'), case.get('coordkey'))]
        vs = []
        scope = dict(form=form, nsrc=n, ntgt=len(tgt), square=bool(n == len(tgt)), cint=bool(case.get('cint')),
                     big=bool(case.get('big')), maskfirst=bool(case.get('maskfirst')),
                     coordkey=bool(case.get('coordkey')))
        sig = (form,)
        xs, nxs = np.array(src, 'd'), np.array(tgt, 'd')
        if case.get('big'):
            xs = 1.0e9 + 3600. * xs
            nxs = xs + 900.
        for dname in ('t', 'z', 'x'):
            f = P.PseudoNetCDFFile()
            lens = {'t': 2, 'z': 3, 'x': 2}
            lens[dname] = n
            for d in ('t', 'z', 'x'):
                f.createDimension(d, lens[d])
            cv = f.createVariable(dname, 'i' if case.get('cint') else 'd', (dname,))
            cv[:] = xs
            f.setCoords([dname])
            rng = np.arange(lens['t'] * lens['z'] * lens['x'], dtype='d').reshape(lens['t'], lens['z'], lens['x'])
            ax = ('t', 'z', 'x').index(dname)
            shp = [1, 1, 1]
            shp[ax] = n
            lin = (rng % 3 + 1.) * xs.reshape(shp) + rng % 5     # linear in the coordinate along dname
            if case.get('maskfirst'):
                am = f.createVariable('AM', 'd', ('t', 'z', 'x'), fill_value=-999.)
                mk = np.zeros(lin.shape, bool)
                mk[(0, 0, 0)] = True
                mk[(-1, -1, -1)] = True
                am[...] = np.ma.MaskedArray(lin + 1., mask=mk)
            v = f.createVariable('A', 'd', ('t', 'z', 'x'))
            v[...] = lin
            o = f.createVariable('other', 'd', tuple(d for d in ('t', 'z', 'x') if d != dname))
            o[...] = 7.
            # a variable that uses the interpolated dimension twice (averaging kernel, covariance)
            ak = f.createVariable('AK', 'd', (dname, dname))
            ak[...] = 1. + 2. * xs[:, None] + 3. * xs[None, :]
            want = (rng % 3 + 1.).take([0], axis=ax) * 0   # placeholder shape
            try:
                if case.get('coordkey'):
                    pc = f.createVariable('pc', 'd', (dname,))
                    pc[:] = 2. * xs + 5.
                    g = f.interpDimension(dname, 2. * nxs + 5., coordkey='pc')
                elif form == 'interpDimension':
                    g = f.interpDimension(dname, nxs)
                else:
                    from PseudoNetCDF.core._functions import interpvars
                    w = getinterpweights(xs, nxs)
                    g = interpvars(f, w.T, dname)
            except Exception as e:
                vs.append(viol('raises', sig + (dname,), '%s: %r (dim %s, src %s, tgt %s)'
                               % (type(e).__name__, e, dname, src, tgt), exc=type(e).__name__, dim=dname, **scope))
                continue
            wf = lib.wellformed(g)
            if wf:
                vs.append(viol('not-wellformed', sig + (dname,), '; '.join(wf), dim=dname, **scope))
                continue
            # the source file is left as it was, and asking again gives the same answer
            swf = lib.wellformed(f)
            if swf or len(f.dimensions[dname]) != n:
                vs.append(viol('source-modified', sig + (dname,), 'after the call the source has %s=%d (%s)'
                               % (dname, len(f.dimensions[dname]), '; '.join(swf)), dim=dname, **scope))
                continue
            try:
                if case.get('coordkey'):
                    g2 = f.interpDimension(dname, 2. * nxs + 5., coordkey='pc')
                elif form == 'interpDimension':
                    g2 = f.interpDimension(dname, nxs)
                else:
                    g2 = interpvars(f, getinterpweights(xs, nxs).T, dname)
                if not np.array_equal(np.asarray(g2.variables['A'][...]), np.asarray(g.variables['A'][...])):
                    vs.append(viol('second-call-differs', sig + (dname,), 'a second identical call gives other values',
                                   dim=dname, **scope))
            except Exception as e:
                vs.append(viol('second-call-differs', sig + (dname,), 'a second identical call raised %s: %r'
                               % (type(e).__name__, e), dim=dname, **scope))
            got = np.asarray(g.variables['A'][...], 'd')
            # expected: evaluate the same linear-in-coordinate field at the (clipped) targets
            cx = np.clip(nxs, xs.min(), xs.max())
            tol = 1e-10 if not case.get('big') else 1e-7     # (1e9-sized coordinates: cancellation in the weights)
            shp2 = [1, 1, 1]
            shp2[ax] = len(tgt)
            slope = np.take(rng % 3 + 1., [0], axis=ax)
            icpt = np.take(rng % 5, [0], axis=ax)
            # rng%3 and rng%5 vary along ax in general: build expectation lane by lane instead
            want = np.apply_along_axis(lambda lane: np.interp(cx, xs, lane), ax, lin)
            if got.shape != want.shape or relerr(got, want) > tol:
                vs.append(viol('interpolated-values', sig + (dname,), 'dim %s src %s tgt %s: %s expected %s'
                               % (dname, src, tgt, rfile._short(got), rfile._short(want)), dim=dname, **scope))
            gak = np.asarray(g.variables['AK'][...], 'd')
            wak = 1. + 2. * cx[:, None] + 3. * cx[None, :]
            if gak.shape != wak.shape or relerr(gak, wak) > (1e-10 if not case.get('big') else 1e-6):
                vs.append(viol('interpolated-values', sig + (dname, 'repeated-dimension'),
                               'AK(%s,%s) src %s tgt %s: %s expected %s' % (dname, dname, src, tgt,
                                                                           rfile._short(gak), rfile._short(wak)),
                               dim=dname, repeated=True, **scope))
            if case.get('coordkey'):
                # the variable named like the dimension is linear in pc: it comes out as the clipped targets
                gd = np.asarray(g.variables[dname][...], 'd')
                if gd.shape != cx.shape or relerr(gd, cx) > 1e-10:
                    vs.append(viol('interpolated-values', sig + (dname, 'coordkey'),
                                   'variable %s with coordkey=pc: %s expected %s' % (dname, gd, cx), dim=dname, **scope))
            if len(g.dimensions[dname]) != len(tgt):
                vs.append(viol('dimension-length', sig + (dname,), '%d != %d' % (len(g.dimensions[dname]),
                                                                              len(tgt)), dim=dname, **scope))
            if not np.array_equal(np.asarray(g.variables['other'][...]), np.asarray(o[...])):
                vs.append(viol('untouched-variable-changed', sig + (dname,), 'other changed', dim=dname, **scope))
        if form == 'interpDimension':
            vs.extend(self.nd_branch(xs, nxs, scope))
        return result('viol' if vs else 'ok-apply', vs, st, 3,
                      h64('a', src, tgt, form, case.get('cint'), case.get('big'), case.get('maskfirst'), case.get('coordkey')) if (list(src) != list(tgt) or case.get('big')) else None,
                      h64('ok') if not vs else None)

    def nd_branch(self, xs, nxs, scope):
        """interpDimension with an N-D coordinate variable: per-column source and
        target coordinates (columns share the source but differ in the target, and vice versa)"""
        P = lib.pnc()
        vs = []
        n, m = xs.size, nxs.size
        f = P.PseudoNetCDFFile()
        f.createDimension('t', 2)
        f.createDimension('z', n)
        f.createDimension('x', 3)
        zc = f.createVariable('zc', 'd', ('t', 'z', 'x'))
        a = f.createVariable('A', 'd', ('t', 'z', 'x'))
        src = np.zeros((2, n, 3))
        tgt = np.zeros((2, m, 3))
        for ti in range(2):
            for xi in range(3):
                src[ti, :, xi] = xs + (10. * xi if ti == 1 else 0.)     # t=0: all columns share the source
                tgt[ti, :, xi] = np.clip(nxs + 0.25 * xi, xs.min(), xs.max()) + (10. * xi if ti == 1 else 0.)
        zc[...] = src
        a[...] = 2. * src + 1. + np.arange(3)[None, None, :]
        g0 = P.PseudoNetCDFFile()
        g0.createDimension('t', 2)
        g0.createDimension('z', m)
        g0.createDimension('x', 3)
        nv = g0.createVariable('zc', 'd', ('t', 'z', 'x'))
        nv[...] = tgt
        try:
            g = f.interpDimension('z', nv, coordkey='zc')
            got = np.asarray(g.variables['A'][...], 'd')
            want = 2. * tgt + 1. + np.arange(3)[None, None, :]
            if got.shape != want.shape or relerr(got, want) > 1e-10:
                vs.append(viol('interpolated-values', ('interpDimension', 'nd-coordinate'),
                               'per-column coordinates src %s tgt %s: %s expected %s'
                               % (xs, nxs, rfile._short(got), rfile._short(want)), dim='z-nd', **scope))
        except Exception as e:
            vs.append(viol('raises', ('interpDimension', 'nd-coordinate'), '%s: %r' % (type(e).__name__, e),
                           exc=type(e).__name__, dim='z-nd', **scope))
        # the same with targets beyond each column's source range and extrapolate=True: the keyword reaches every
        # column, the linear profile is continued
        try:
            tgt2 = tgt.copy()
            tgt2[:, 0, :] = src.min(1) - 1.5
            tgt2[:, -1, :] = src.max(1) + 2.5
            nv[...] = tgt2
            g = f.interpDimension('z', nv, coordkey='zc', extrapolate=True)
            got = np.asarray(g.variables['A'][...], 'd')
            want = 2. * tgt2 + 1. + np.arange(3)[None, None, :]
            if got.shape != want.shape or relerr(got, want) > 1e-10:
                vs.append(viol('interpolated-values', ('interpDimension', 'nd-coordinate', 'extrapolate'),
                               'per-column coordinates src %s, targets beyond the range: %s expected %s'
                               % (xs, rfile._short(got), rfile._short(want)), dim='z-nd', **scope))
        except Exception as e:
            vs.append(viol('raises', ('interpDimension', 'nd-coordinate', 'extrapolate'), '%s: %r' % (type(e).__name__, e),
                           exc=type(e).__name__, dim='z-nd', **scope))
        return vs

    def run_sigma(self, case):
        from PseudoNetCDF.coordutil import sigma2coeff
        fr, to = np.array(case['from'], 'd'), np.array(case['to'], 'd')
        st = [h64('s', case['from']), h64('s', case['to'])]
        vs = []
        scope = dict(nfrom=len(fr) - 1, nto=len(to) - 1)
        sig = ('sigma2coeff',)
        try:
            c = np.asarray(sigma2coeff(fr, to), 'd')
        except Exception as e:
            vs.append(viol('raises', sig, '%s: %r' % (type(e).__name__, e), exc=type(e).__name__, **scope))
            return result('viol', vs, st)
        dfr, dto = -np.diff(fr), -np.diff(to)
        if c.shape != (dfr.size, dto.size):
            vs.append(viol('shape', sig, '%r' % (c.shape,), **scope))
            return result('viol', vs, st)
        if (c < -TOL).any() or (c > 1 + TOL).any():
            vs.append(viol('fraction-out-of-range', sig, 'from %s to %s coeff %s' % (fr, to, c.tolist()), **scope))
        if relerr(c.sum(1), np.ones(dfr.size)) > TOL:
            vs.append(viol('source-layer-not-partitioned', sig, 'from %s to %s row sums %s' % (fr, to, c.sum(1)),
                           **scope))
        if relerr((c * dfr[:, None]).sum(0), dto) > TOL:
            vs.append(viol('target-thickness', sig, 'from %s to %s: sum_i c_ij*dsigma_i = %s expected %s'
                           % (fr, to, (c * dfr[:, None]).sum(0), dto), **scope))
        # through the IOAPI wrapper
        nl = len(fr) - 1
        rec = ioapi_u.recipe(nt=1, nl=nl, nr=1, nc=2, nv=1, start=0)
        rec['vg'] = list(case['from'])
        ntrans = 1
        try:
            f = ioapi_u.build(rec)
            data = np.asarray(f.variables['O3'][...], 'd')
            g = f.interpSigma(np.array(case['to'], 'f'), interptype='conserve')
            ntrans += 1
            nd = np.asarray(g.variables['O3'][...], 'd')
            col_old = (data * dfr[None, :, None, None]).sum(1)
            col_new = (nd * dto[None, :, None, None]).sum(1)
            if not relerr(col_new, col_old) <= 1e-6:      # data and result are float32 (NaN counts as a miss)
                vs.append(viol('column-mass', ('interpSigma', 'conserve'),
                               'from %s to %s: column integral %s -> %s' % (fr, to, col_old.ravel(), col_new.ravel()),
                               **scope))
            f2 = ioapi_u.build(rec)
            f2.variables['O3'][...] = 3.25
            g2 = f2.interpSigma(np.array(case['to'], 'f'), interptype='conserve')
            ntrans += 1
            if not relerr(np.asarray(g2.variables['O3'][...], 'd'), 3.25) <= 1e-6:
                vs.append(viol('constant-field', ('interpSigma', 'conserve'),
                               'from %s to %s: constant 3.25 -> %s' % (fr, to, np.asarray(g2.variables['O3'][...]).ravel()),
                               **scope))
            # new model top: the same call repeated on the same object must give the same
            # result and leave the source's vertical grid alone
            f3 = ioapi_u.build(rec)
            vg0 = np.array(f3.VGLVLS).copy()
            r1 = np.asarray(f3.interpSigma(np.array(case['to'], 'f'), vgtop=4000., interptype='linear').variables['O3'][...], 'd')
            r2 = np.asarray(f3.interpSigma(np.array(case['to'], 'f'), vgtop=4000., interptype='linear').variables['O3'][...], 'd')
            ntrans += 2
            if not np.array_equal(np.array(f3.VGLVLS), vg0):
                vs.append(viol('source-grid-modified', ('interpSigma', 'vgtop'),
                               'VGLVLS of the source changed %s -> %s' % (vg0, np.array(f3.VGLVLS)), **scope))
            if not np.array_equal(r1, r2, equal_nan=True):
                vs.append(viol('repeat-differs', ('interpSigma', 'vgtop'),
                               'second identical call differs: %s vs %s' % (r1.ravel()[:4], r2.ravel()[:4]), **scope))
            # a profile that is linear in pressure is reproduced exactly at every target mid point inside the
            # source range, whatever model top the target levels refer to (0 Pa included; the file's own top too)
            P0 = 101325.
            for vgtop in (None, 0., 4000., 5000., 10000.):
                f4 = ioapi_u.build(rec)
                top0 = float(f4.VGTOP)
                top1 = top0 if vgtop is None else vgtop
                vgs = np.asarray(f4.VGLVLS, 'd')
                pmid = (vgs[:-1] + vgs[1:]) / 2 * (P0 - top0) + top0
                prof = 2.0 + pmid / 1000.
                f4.variables['O3'][...] = prof[None, :, None, None].astype('f')
                tos = np.asarray(np.array(case['to'], 'f'), 'd')
                pnew = (tos[:-1] + tos[1:]) / 2 * (P0 - top1) + top1
                kw4 = {} if vgtop is None else {'vgtop': vgtop}
                g4 = f4.interpSigma(np.array(case['to'], 'f'), interptype='linear', **kw4)
                ntrans += 1
                got = np.asarray(g4.variables['O3'][...], 'd')[0, :, 0, 0]
                inside = (pnew >= pmid.min() * (1 + 1e-9)) & (pnew <= pmid.max() * (1 - 1e-9))
                want = 2.0 + pnew / 1000.
                if inside.any() and relerr(got[inside], want[inside]) > 1e-5:
                    vs.append(viol('linear-in-pressure', ('interpSigma', 'linear', 'vgtop'),
                                   'from %s (top %g) to %s (top %r): %s expected %s at pressures %s'
                                   % (fr, top0, to, vgtop, got[inside], want[inside], pnew[inside]),
                                   vgtop='none' if vgtop is None else ('zero' if vgtop == 0 else
                                                                       'own' if vgtop == top0 else 'other'),
                                   **scope))
                    break
            # an integer-typed variable is interpolated like the same numbers held as floats (no truncation)
            f5 = ioapi_u.build(rec)
            dims5 = tuple(f5.variables['O3'].dimensions)
            shp5 = f5.variables['O3'].shape
            ramp5 = (3 + 10 * np.arange(shp5[1]))[None, :, None, None] * np.ones(shp5, 'i')
            for nm_, tc_ in (('CNT', 'i'), ('CNTF', 'f')):
                v5 = f5.createVariable(nm_, tc_, dims5)
                v5.units, v5.long_name, v5.var_desc = 'count'.ljust(16), nm_.ljust(16), nm_.ljust(80)
                v5[...] = ramp5
            for itype in ('linear', 'conserve'):
                g5 = f5.interpSigma(np.array(case['to'], 'f'), interptype=itype)
                ntrans += 1
                a5 = np.asarray(g5.variables['CNT'][...], 'd')
                b5 = np.asarray(g5.variables['CNTF'][...], 'd')
                if a5.shape != b5.shape or relerr(a5, b5) > 1e-6:
                    vs.append(viol('integer-variable-truncated', ('interpSigma', itype),
                                   'from %s to %s: integer variable %s, the same numbers as floats %s'
                                   % (fr, to, a5[0, :, 0, 0], b5[0, :, 0, 0]), **scope))
                    break
            if np.atleast_1d(g.VGLVLS).size != len(to) or len(g.dimensions['LAY']) != len(to) - 1:
                vs.append(viol('levels', ('interpSigma', 'conserve'), 'VGLVLS %s LAY %d' % (
                    g.VGLVLS, len(g.dimensions['LAY'])), **scope))
        except Exception as e:
            vs.append(viol('raises', ('interpSigma', 'conserve'), '%s: %r (from %s to %s)'
                           % (type(e).__name__, e, fr, to), exc=type(e).__name__, **scope))
        return result('viol' if vs else 'ok-sigma', vs, st, ntrans,
                      h64('s', case['from'], case['to']) if case['from'] != case['to'] else None,
                      h64(c.tobytes()) if not vs else None)
