"""Reference semantics of the transformation operations on RFile.
Plain numpy / numpy.ma, one primitive per axis.  No PseudoNetCDF import."""
from collections import OrderedDict

import numpy as np

from .rfile import RFile, RVar


class OutOfDomain(Exception):
    """The operation instance is outside the documented domain (DESIGN 3.1):
    the library may raise; if it returns, the result must be well-formed."""


# --------------------------------------------------------------------------
# selectors: ('i', k) | ('s', start, stop, step) | ('l', [k, ...])

def sel_to_py(s):
    if s[0] == 'i':
        return int(s[1])
    if s[0] == 's':
        return slice(s[1], s[2], s[3])
    if s[0] == 'l':
        return [int(i) for i in s[1]]
    raise ValueError(s)


def sel_indices(s, n):
    """index list an in-domain selector picks on an axis of length n"""
    if s[0] == 'i':
        k = int(s[1])
        if not (-n <= k < n):
            raise OutOfDomain('integer %d outside [-%d,%d)' % (k, n, n))
        return [k % n] if n else []
    if s[0] == 's':
        if s[3] == 0:
            raise OutOfDomain('zero slice step')
        return list(range(n))[slice(s[1], s[2], s[3])]
    if s[0] == 'l':
        out = []
        for k in s[1]:
            k = int(k)
            if not (-n <= k < n):
                raise OutOfDomain('list index %d outside [-%d,%d)' % (k, n, n))
            out.append(k % n)
        return out
    raise ValueError(s)


def rslice(rf, sel, newdims=('POINTS',)):
    for d in sel:
        if d not in rf.dims:
            raise OutOfDomain('unknown dimension ' + d)
    lists = [d for d, s in sel.items() if s[0] == 'l']
    zipped = len(lists) >= 2
    idx = OrderedDict((d, sel_indices(s, rf.dims[d][0])) for d, s in sel.items())
    if zipped:
        npts = len(idx[lists[0]])
        if any(len(idx[d]) != npts for d in lists):
            raise OutOfDomain('index lists of unequal length')
        if newdims[0] in rf.dims:
            raise OutOfDomain('new dimension name already exists')
    out = RFile()
    out.cls = rf.cls
    out.attrs = OrderedDict(rf.attrs)
    out.coords = set(rf.coords)
    for d, (n, u) in rf.dims.items():
        out.dims[d] = [len(idx[d]) if d in idx else n, u]
    if zipped:
        out.dims[newdims[0]] = [npts, False]
    for k, v in rf.vars.items():
        carried = [d for d in v.dims if d in lists]
        data, mask = v.data, v.mask
        if zipped and len(carried) >= 2:
            # orthogonal part first (non-listed dims)
            for ax, d in enumerate(v.dims):
                if d in idx and d not in lists:
                    data = np.take(data, np.array(idx[d], dtype=int), axis=ax)
                    mask = np.take(mask, np.array(idx[d], dtype=int), axis=ax)
            laxes = [ax for ax, d in enumerate(v.dims) if d in lists]
            first = laxes[0]
            rest_shape = [data.shape[ax] for ax in range(data.ndim) if ax not in laxes]
            oshape = rest_shape[:first] + [npts] + rest_shape[first:]
            nd = np.zeros(oshape, data.dtype)
            nm = np.zeros(oshape, bool)
            for p in range(npts):
                a, m = data, mask
                for ax in reversed(laxes):
                    a = np.take(a, idx[v.dims[ax]][p], axis=ax)
                    m = np.take(m, idx[v.dims[ax]][p], axis=ax)
                sl = [slice(None)] * len(oshape)
                sl[first] = p
                nd[tuple(sl)] = a
                nm[tuple(sl)] = m
            odims = [d for d in v.dims if d not in lists]
            odims.insert(first, newdims[0])
            out.vars[k] = RVar(odims, nd, nm, v.attrs, v.fill, v.masked)
        else:
            for ax, d in enumerate(v.dims):
                if d in idx:
                    data = np.take(data, np.array(idx[d], dtype=int), axis=ax)
                    mask = np.take(mask, np.array(idx[d], dtype=int), axis=ax)
            out.vars[k] = RVar(v.dims, data.copy(), mask.copy(), v.attrs, v.fill, v.masked)
    return out
