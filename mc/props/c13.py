"""C13 - memory-mapped and record-based CAMx readers agree (Engine A)."""
import os

import numpy as np

from ..engine import core
from ..engine.core import viol, result, h64
from ..ref import camx_u
from .. import camx_lib as cl
from . import c09

BOTH = ('uamiv', 'temperature', 'height_pressure', 'humidity', 'vertical_diffusivity', 'wind', 'one3d')


LONG = (8784, 8790)
LONGFMT = ('humidity', 'vertical_diffusivity', 'one3d', 'temperature', 'height_pressure')


class Prop(c09.Prop):
    ID = 'C13'
    HORIZON = 5.0
    RULE = ('every descriptor of the binary universe F for the seven formats that have both reader families is '
            'reference-encoded and opened by both readers on the same path; all common dimensions and variables '
            'are compared; a per-case watchdog turns non-termination into a violation; non-trivial always; '
            'distinct = distinct descriptors')
    ASSUMPTIONS = [
        'a reader accepts a file when its constructor returns; the dimensions both readers expose are compared '
        'at that point, the variables both define afterwards (a record reader whose variables cannot be read '
        'is then counted as not accepting, unless its dimensions already disagreed)',
        'only what both readers define is compared (the record readers define no TFLAG variable); float data '
        'are compared bit for bit up to length-1 axes',
        'horizon 5 s per case (a normal case takes < 50 ms)',
    ]

    def bounds(self, tier):
        b = {f: len(camx_u.descs(f, tier)) for f in BOTH}
        b['long_files'] = 'hourly files of %s steps (more than a leap year) for %s' % (LONG, ', '.join(LONGFMT))
        return b

    def groups(self, tier):
        for fmt in BOTH:
            for d in camx_u.descs(fmt, tier):
                yield d
        # hourly files longer than a (leap) year
        for fmt in LONGFMT:
            for n in LONG:
                d = camx_u.base_desc(fmt)
                d.update(nsteps=n, shape=[2, 1, 1], name=0, spc=0)
                yield d

    def timeout_sig(self, d):
        return ('readers', d['fmt'])

    def timeout_scope(self, d):
        return dict(fmt=d['fmt'], ncell=d['shape'][0] * d['shape'][1], nz=d['shape'][2], nsteps=d['nsteps'])

    def run_one(self, d):
        r = camx_u.materialize(d)
        fmt = d['fmt']
        raw = camx_u.encode(r)
        p = self.path('ref')
        with open(p, 'wb') as fh:
            fh.write(raw)
        scope = c09.scope_of(d, r)
        scope['name'] = camx_u.NAMES[d['name']] if fmt == 'uamiv' else ''
        st = [h64(raw)]
        vs = []
        sig = ('readers', fmt)
        try:
            fm = cl.open_mm(fmt, p, r)
            md = {k: len(v) for k, v in fm.dimensions.items()}
        except Exception as e:
            # the property quantifies over files both reader families accept
            return result('not-accepted-memmap', [], st, 1, None, h64(type(e).__name__))
        mm, mmerr = None, None
        try:
            mm = {k: np.asarray(fm.variables[k][...]) for k in fm.variables.keys()}
        except core.Timeout:
            raise
        except Exception as e:
            mmerr = e
        try:
            fr = cl.open_rd(fmt, p, r)
            rdim = {k: len(v) for k, v in fr.dimensions.items()}
        except core.Timeout:
            raise
        except Exception as e:
            return result('not-accepted-record', [], st, 2, None, h64(type(e).__name__))
        # both constructors accepted the file: the dimensions they expose are compared at once
        for k in sorted(set(md) & set(rdim)):
            if md[k] != rdim[k]:
                vs.append(viol('dimension-length', sig, '%s: memmap %d, record reader %d' % (k, md[k], rdim[k]),
                               dim=k, **scope))
        if mm is None:
            if vs:
                return result('viol', vs, st, 2)
            return result('not-accepted-memmap', [], st, 2, None, h64(type(mmerr).__name__))
        try:
            rd = {k: np.asarray(fr.variables[k][...]) for k in fr.variables.keys()}
        except core.Timeout:
            raise
        except Exception as e:
            if vs:
                return result('viol', vs, st, 2)
            return result('not-accepted-record', [], st, 2, None, h64(type(e).__name__))
        common = [k for k in mm if k in rd]
        if not common:
            vs.append(viol('no-common-variables', sig, '%r vs %r' % (list(mm), list(rd)), **scope))
        for k in common:
            a, b = mm[k], rd[k]
            if 'FLAG' in k:
                if a.shape != b.shape or not np.array_equal(a, b):
                    vs.append(viol('time-flags', sig, '%s: %s vs %s' % (k, a[:, 0].tolist(), b[:, 0].tolist()),
                                   **scope))
                continue
            if not cl.squeeze_equal(a, b):
                vs.append(viol('data', sig, '%s: memmap %r %s vs record %r %s' % (
                    k, a.shape, a.ravel()[:4], b.shape, b.ravel()[:4]), var=k, **scope))
        # the same path rewritten with another valid file and opened again: both readers must show the NEW file
        if not vs:
            d2 = dict(d, nsteps=d['nsteps'] % 3 + 2)
            r2 = camx_u.materialize(d2)
            scope2 = c09.scope_of(d2, r2)
            scope2['name'] = scope['name']
            with open(p, 'wb') as fh:
                fh.write(camx_u.encode(r2))
            try:
                fm2 = cl.open_mm(fmt, p, r2)
                fr2 = cl.open_rd(fmt, p, r2)
                for k in ('TSTEP', 'LAY'):
                    if k in fm2.dimensions and k in fr2.dimensions and \
                            len(fm2.dimensions[k]) != len(fr2.dimensions[k]):
                        vs.append(viol('dimension-length-after-rewrite', sig, '%s: memmap %d, record reader %d after '
                                       'the path was rewritten' % (k, len(fm2.dimensions[k]), len(fr2.dimensions[k])),
                                       dim=k, **scope2))
                m2 = {k: np.asarray(fm2.variables[k][...]) for k in fm2.variables.keys()}
                r2v = {k: np.asarray(fr2.variables[k][...]) for k in fr2.variables.keys()}
                for k in [k for k in m2 if k in r2v and 'FLAG' not in k]:
                    if not cl.squeeze_equal(m2[k], r2v[k]):
                        vs.append(viol('data-after-rewrite', sig, '%s after the path was rewritten (%d -> %d steps): '
                                       'memmap %r vs record %r' % (k, d['nsteps'], d2['nsteps'], m2[k].shape,
                                                                   r2v[k].shape), var=k, **scope2))
                        break
            except core.Timeout:
                raise
            except Exception:
                pass      # the rewritten file is not accepted by one of the readers: nothing to compare
        return result('viol' if vs else 'ok', vs, st, 4, h64('c13', sorted(d.items(), key=str)),
                      h64(raw) if not vs else None)
