"""Engine A: bounded-exhaustive case enumeration on the real code.

A property driver (mc/props/cXX.py, class Prop) declares
    groups(tier)   -> iterable of JSON-able group recipes (deterministic order)
    expand(group)  -> iterable of JSON-able case recipes (default: [group])
    run_one(case)  -> result dict  (see `result()`)
The engine enumerates *all* groups, shards them over worker processes,
executes every case on the real library, and aggregates measured coverage.
Nothing is sampled; VERIF_SEED only permutes the dispatch order of shards.
"""
import os
import sys
import json
import time
import signal
import hashlib
import random
import traceback
import importlib
import collections
import multiprocessing as mp

ROOT = os.path.dirname(os.path.dirname(os.path.dirname(os.path.abspath(__file__))))
DEPS = os.path.join(ROOT, '.deps')
if os.path.isdir(DEPS) and DEPS not in sys.path:
    sys.path.append(DEPS)

HORIZON_S = 10.0     # per-case watchdog; a normal case takes < 50 ms
NWORKERS = int(os.environ.get('VERIF_WORKERS', '16'))


def lib_src():
    return os.environ.get('VERIF_PNC_SRC', '/repo/src')


def load_lib():
    """Import PseudoNetCDF from the working tree under test (no build step:
    pure python, so 'rebuild from the working tree' == 'import from it')."""
    src = lib_src()
    if src not in sys.path[:1]:
        sys.path.insert(0, src)
    import warnings
    warnings.simplefilter('ignore')
    import PseudoNetCDF
    got = os.path.realpath(os.path.dirname(PseudoNetCDF.__file__))
    want = os.path.realpath(os.path.join(src, 'PseudoNetCDF'))
    if got != want:
        raise RuntimeError('library loaded from %s, expected %s' % (got, want))
    snapshot_globals()
    return PseudoNetCDF


_GLOBALS = None


def snapshot_globals():
    """Own the library's process-global mutable state: remember every module-level and class-level
    list/dict/set of the (fully imported) library, so that every case starts from the same state
    whatever ran before it in this worker.  History dependence is explored by explicit sequences
    inside a case (C04 'seq', C07 'prior', C15 histories), never by accident of case order."""
    global _GLOBALS
    if _GLOBALS is not None:
        return
    import collections
    plain = (list, dict, set, collections.OrderedDict)

    def cp_(x):
        return type(x)(x)
    out = []
    for mn, m in sorted(sys.modules.items()):
        if not mn.startswith('PseudoNetCDF') or m is None:
            continue
        for an, a in list(vars(m).items()):
            if an.startswith('__'):
                continue
            if type(a) in plain and getattr(m, '__name__', '') == mn:
                out.append((a, cp_(a), '%s.%s' % (mn, an)))
            if isinstance(a, type) and a.__module__ == mn:
                for cn, c in list(vars(a).items()):
                    if not cn.startswith('__') and type(c) in plain:
                        out.append((c, cp_(c), '%s.%s.%s' % (mn, a.__name__, cn)))
    _GLOBALS = out


def restore_globals():
    """returns the names of the containers that had to be restored"""
    changed = []
    for c, cp, name in _GLOBALS or ():
        try:
            same = (c == cp) and (not isinstance(c, list) or all(x is y for x, y in zip(c, cp)))
        except Exception:
            same = False
        if not same:
            changed.append(name)
            if isinstance(c, list):
                c[:] = cp
            else:
                c.clear()
                c.update(cp)
    return changed


def lib_info():
    import subprocess
    src = lib_src()
    top = os.path.dirname(src.rstrip('/'))
    info = {'src': src}
    try:
        info['head'] = subprocess.run(['git', '-C', top, 'rev-parse', 'HEAD'],
                                      capture_output=True, text=True).stdout.strip()
        d = subprocess.run(['git', '-C', top, 'diff', 'HEAD', '--', 'src'],
                           capture_output=True).stdout
        info['diff_sha1'] = hashlib.sha1(d).hexdigest() if d else 'clean'
    except Exception as e:  # pragma: no cover
        info['git_error'] = str(e)
    return info


# --------------------------------------------------------------------------
# hashing helpers

def h64(*parts):
    h = hashlib.blake2b(digest_size=8)
    for p in parts:
        if isinstance(p, (bytes, bytearray, memoryview)):
            h.update(bytes(p))
        else:
            h.update(repr(p).encode())
        h.update(b'\x1f')
    return int.from_bytes(h.digest(), 'big')


def jdump(o):
    return json.dumps(o, sort_keys=True, default=_jdefault)


def _jdefault(o):
    try:
        import numpy as np
        if isinstance(o, np.generic):
            return o.item()
        if isinstance(o, np.ndarray):
            return o.tolist()
    except Exception:
        pass
    if isinstance(o, (set, frozenset)):
        return sorted(o)
    if isinstance(o, bytes):
        return o.hex()
    if isinstance(o, slice):
        return ['slice', o.start, o.stop, o.step]
    return repr(o)


# --------------------------------------------------------------------------
# results and violations

def viol(clause, sig=(), detail='', **fields):
    """A violation record.  `clause` = which part of the property statement is
    broken; `sig` = classification fields (operation, argument class, object
    class ...) that together with the clause form the signature; `fields` are
    extra scope attributes usable by known_findings.json `match`."""
    v = {'clause': clause, 'sig': [str(s) for s in sig], 'detail': str(detail)[:2000]}
    v.update(fields)
    return v


def signature(v):
    return '|'.join([v['clause']] + list(v.get('sig', ())))


def result(outcome='ok', viol=(), states=(), trans=1, nontrivial=None, out=None):
    """outcome: label for the outcome histogram; states: iterable of 64-bit
    canonical state hashes seen (inputs, intermediates, outputs); trans: real
    library operations executed; nontrivial: None or a hash identifying the
    distinct non-trivial (input, operation, expected output) triple; out:
    hash of the observed output (distinct outcomes)."""
    return {'outcome': outcome, 'viol': list(viol), 'states': list(states),
            'trans': int(trans), 'nt': nontrivial, 'out': out}


class Timeout(Exception):
    pass


def _alarm(signum, frame):
    raise Timeout()


class Prop(object):
    """Base class of property drivers."""
    ID = 'C00'
    LEVEL = 'model_checking'
    ENGINE = 'A'
    RULE = ''
    ASSUMPTIONS = []
    HORIZON = HORIZON_S

    def bounds(self, tier):
        return {}

    def groups(self, tier):
        raise NotImplementedError

    def expand(self, group):
        yield group

    def worker_init(self):
        load_lib()

    def run_one(self, case):
        raise NotImplementedError

    def before_case(self):
        pass


# --------------------------------------------------------------------------
# worker side

_W = {}


def _winit(modname, tier):
    import gc
    import warnings
    warnings.simplefilter('ignore')
    signal.signal(signal.SIGALRM, _alarm)
    try:
        mod = importlib.import_module(modname)
        prop = mod.Prop()
        prop.tier = tier
        prop.worker_init()
    except BaseException:
        # an exception here would make the pool respawn workers forever: report it with the first chunk
        _W['init_error'] = traceback.format_exc()
        return
    gc.collect()
    gc.freeze()      # keep explicit gc.collect() events cheap: ignore the import-time heap
    gc.disable()
    _W['prop'] = prop


def run_case_guarded(prop, case):
    """Run one case under the watchdog.  Returns (result, harness_error)."""
    import warnings
    restore_globals()
    prop.before_case()
    signal.setitimer(signal.ITIMER_REAL, prop.HORIZON)
    try:
        with warnings.catch_warnings():
            warnings.simplefilter('ignore')
            r = prop.run_one(case)
        signal.setitimer(signal.ITIMER_REAL, 0)
        return r, None
    except Timeout:
        signal.setitimer(signal.ITIMER_REAL, 0)
        r = result('no-termination',
                   viol=[viol('no-termination', sig=prop.timeout_sig(case) if hasattr(prop, 'timeout_sig') else (),
                              detail='case exceeded %.0f s horizon' % prop.HORIZON,
                              **(prop.timeout_scope(case) if hasattr(prop, 'timeout_scope') else {}))])
        return r, None
    except BaseException:
        signal.setitimer(signal.ITIMER_REAL, 0)
        return None, traceback.format_exc()


def _wchunk(chunk):
    import gc
    agg = new_agg(_W['prop'].ID if 'prop' in _W else None)
    if 'init_error' in _W:
        agg['harness'].append({'case': None, 'trace': 'worker initialisation failed:\n' + _W['init_error']})
        return agg
    prop = _W['prop']
    for gidx, group in chunk:
        ci = 0
        for case in prop.expand(group):
            cid = (gidx, ci)
            ci += 1
            r, herr = run_case_guarded(prop, case)
            if herr is not None:
                agg['harness'].append({'case': case, 'trace': herr})
                if len(agg['harness']) > 5:
                    return agg
                continue
            fold(agg, cid, case, r)
            if ci % 25 == 0:
                gc.collect()     # automatic collection is off: release file handles held by cycles
        gc.collect()
    return agg


def new_agg(pid=None):
    return {'n': 0, 'trans': 0, 'states': set(), 'nt': set(), 'outs': set(),
            'outcomes': collections.Counter(), 'viol': {}, 'nviol': 0,
            'first': {}, 'last': None, 'harness': [], 'pid': pid}


_KNOWN = {}


def known_id(pid, v):
    """id of the open known finding that lists violation v, or None (classified where the violation is
    folded, so that any number of listed scopes needs no memory and can never crowd out an unlisted one)"""
    if pid is None:
        return None
    from . import report
    if pid not in _KNOWN:
        _KNOWN[pid] = [e for e in report.load_known(pid) if e.get('status', 'open') == 'open']
    for e in _KNOWN[pid]:
        if report._match_one(e, v):
            return e['id']
    return None


def fold(agg, cid, case, r):
    agg['n'] += r.get('n', 1)
    agg['trans'] += r['trans']
    agg['states'].update(r['states'])
    if isinstance(r['nt'], (list, tuple, set)):
        agg['nt'].update(r['nt'])
    elif r['nt'] is not None:
        agg['nt'].add(r['nt'])
    if r['out'] is not None:
        agg['outs'].add(r['out'])
    oc = r['outcome']
    if r.get('outcomes'):
        agg['outcomes'].update(r['outcomes'])     # a case that aggregates many evaluations
    else:
        agg['outcomes'][oc] += 1
    if oc not in agg['first'] or cid < agg['first'][oc][0]:
        agg['first'][oc] = (cid, case)
    if agg['last'] is None or cid > agg['last'][0]:
        agg['last'] = (cid, case)
    for v in r['viol']:
        agg['nviol'] += 1
        s = signature(v)
        e = agg['viol'].get(s)
        kid = known_id(agg.get('pid'), v)
        # all scopes listed by one known finding share one slot; unlisted scopes are kept apart
        sk = ('known:' + kid) if kid else scope_key(v)
        if e is None:
            e = agg['viol'][s] = {'count': 1, 'cid': cid, 'case': case, 'v': v,
                                  'scopes': {sk: (cid, case, v)}, 'known_counts': {}}
            if kid:
                e['known_counts'][kid] = 1
        else:
            e['count'] += 1
            if kid:
                e['known_counts'][kid] = e['known_counts'].get(kid, 0) + 1
            if cid < e['cid']:
                e['cid'], e['case'], e['v'] = cid, case, v
            if sk not in e['scopes']:
                if len(e['scopes']) < 400:
                    e['scopes'][sk] = (cid, case, v)
                else:
                    e['overflow'] = True
            elif cid < e['scopes'][sk][0]:
                e['scopes'][sk] = (cid, case, v)


def scope_key(v):
    return jdump({k: v[k] for k in v if k not in ('detail',)})


def merge(a, b):
    a['n'] += b['n']
    a['trans'] += b['trans']
    a['states'] |= b['states']
    a['nt'] |= b['nt']
    a['outs'] |= b['outs']
    a['outcomes'].update(b['outcomes'])
    a['nviol'] += b['nviol']
    a['harness'].extend(b['harness'])
    for oc, (cid, case) in b['first'].items():
        if oc not in a['first'] or cid < a['first'][oc][0]:
            a['first'][oc] = (cid, case)
    if b['last'] is not None and (a['last'] is None or b['last'][0] > a['last'][0]):
        a['last'] = b['last']
    for s, e in b['viol'].items():
        ae = a['viol'].get(s)
        if ae is None:
            a['viol'][s] = e
        else:
            ae['count'] += e['count']
            for kid, n_ in e.get('known_counts', {}).items():
                ae.setdefault('known_counts', {})[kid] = ae.setdefault('known_counts', {}).get(kid, 0) + n_
            if e.get('overflow'):
                ae['overflow'] = True
            if e['cid'] < ae['cid']:
                ae['cid'], ae['case'], ae['v'] = e['cid'], e['case'], e['v']
            for sk, t in e['scopes'].items():
                if sk not in ae['scopes']:
                    if len(ae['scopes']) < 400:
                        ae['scopes'][sk] = t
                    else:
                        ae['overflow'] = True
                elif t[0] < ae['scopes'][sk][0]:
                    ae['scopes'][sk] = t
    return a


# --------------------------------------------------------------------------
# parent side

def explore(modname, tier, seed):
    """Enumerate and execute the whole declared space.  Returns agg."""
    mod = importlib.import_module(modname)
    prop = mod.Prop()
    prop.tier = tier
    groups = list(enumerate(prop.groups(tier)))
    ng = len(groups)
    nchunks = max(1, min(ng, NWORKERS * 12))
    chunks = [groups[i::nchunks] for i in range(nchunks)]
    random.Random(seed).shuffle(chunks)   # dispatch order only
    agg = new_agg(prop.ID)
    agg['ngroups'] = ng
    if NWORKERS <= 1 or ng == 1:
        _winit(modname, tier)
        for ch in chunks:
            merge(agg, _wchunk(ch))
    else:
        ctx = mp.get_context('fork')
        with ctx.Pool(min(NWORKERS, nchunks), initializer=_winit,
                      initargs=(modname, tier)) as pool:
            for part in pool.imap_unordered(_wchunk, chunks):
                merge(agg, part)
                if len(agg['harness']) > 20:
                    pool.terminate()
                    break
    return prop, agg
