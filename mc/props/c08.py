"""C08 - CAMx binary write/read round trip and idempotent rewrite (Engine A)."""
import os

import numpy as np

from ..engine import core
from ..engine.core import viol, result, h64
from ..ref import camx_u, rfortran as rf
from .. import camx_lib as cl
from . import c09

HDR = ('NAME', 'NOTE', 'ITZON', 'XORIG', 'YORIG', 'XCELL', 'YCELL', 'PLON', 'PLAT', 'TLAT1', 'TLAT2', 'IUTM',
       'ISTAG', 'CPROJ')


def present(f):
    """everything a reader presents: ordered variable data, time flags, grid header"""
    out = {'dims': {k: len(d) for k, d in f.dimensions.items()}, 'vars': [], 'hdr': {}}
    for k in f.variables.keys():
        a = np.asarray(f.variables[k][...])
        out['vars'].append((k, a.dtype.str, a.shape, a.tobytes()))
    for a in HDR:
        if hasattr(f, a):
            v = getattr(f, a)
            out['hdr'][a] = v.strip() if isinstance(v, str) else float(v)
    return out


def diff_present(a, b):
    out = []
    if a['dims'] != b['dims']:
        out.append(('dimensions', '%r != %r' % (b['dims'], a['dims'])))
    if [v[0] for v in a['vars']] != [v[0] for v in b['vars']]:
        out.append(('species-order', '%r != %r' % ([v[0] for v in b['vars']], [v[0] for v in a['vars']])))
    for va, vb in zip(a['vars'], b['vars']):
        if va != vb and va[0] == 'ETFLAG' and va[1:3] == vb[1:3]:
            # hour 24 of a day and hour 0 of the next day are one instant: end flags are compared as instants
            fa = np.frombuffer(va[3], dtype=va[1]).reshape(va[2])
            fb = np.frombuffer(vb[3], dtype=vb[1]).reshape(vb[2])
            if [camx_u.norm_flag(x) for x in fa.reshape(-1, 2)] == [camx_u.norm_flag(x) for x in fb.reshape(-1, 2)]:
                continue
        if va != vb:
            what = 'time-flags' if 'FLAG' in va[0] else 'data'
            aa = np.frombuffer(va[3], dtype=va[1]).ravel()
            bb = np.frombuffer(vb[3], dtype=vb[1]).ravel() if va[1] == vb[1] and va[2] == vb[2] else None
            det = '%s: dtype/shape %s%r -> %s%r' % (va[0], va[1], va[2], vb[1], vb[2])
            if bb is not None:
                i = int(np.flatnonzero(aa != bb)[0]) if (aa != bb).any() else 0
                det = '%s: element %d %r -> %r' % (va[0], i, aa[i], bb[i])
            out.append((what, det))
    if a['hdr'] != b['hdr']:
        out.append(('grid-header', '%r != %r' % (b['hdr'], a['hdr'])))
    return out


class Prop(c09.Prop):
    ID = 'C08'
    RULE = ('every descriptor of the binary universe F is reference-encoded, read, written, re-read and written '
            'again by the library; non-trivial always; distinct = distinct descriptors')
    ASSUMPTIONS = [
        'the chain starts from reference-encoded files (mc/ref/rfortran.py) so that a symmetric reader/writer '
        'slip is still seen by C09; here only library-vs-library equalities and the encoded instants are judged',
        'float data are compared bit for bit (negative zero, denormals and the largest float32 included)',
    ]

    def run_landuse(self, d):
        r = camx_u.materialize_landuse(d)
        raw = rf.enc_landuse(r)
        p0, p1, p2 = self.path('r0'), self.path('w1'), self.path('w2')
        with open(p0, 'wb') as fh:
            fh.write(raw)
        scope = dict(fmt='landuse', style=d['style'], others='+'.join(d['others']) or 'none',
                     shape='x'.join(str(x) for x in d['shape']), payload=d['payload'],
                     ncell=d['shape'][0] * d['shape'][1])
        vs = []
        for tag in ('roundtrip', 'roundtrip-hand-built') + (('roundtrip-hand-built-reversed',) if r['others'] else ()):
            sig = (tag, 'landuse')
            for p in (p1, p2):
                if os.path.exists(p):
                    os.unlink(p)
            try:
                if tag == 'roundtrip':
                    fa = cl.open_lu(p0, r)
                    pa = present(fa)
                else:
                    fa = cl.lu_hand(r, reverse=tag.endswith('reversed'))
                    pa = None
                cl.write('landuse', fa, p1)
                fb = cl.open_lu(p1, r)
                pb = present(fb)
                if pa is not None:
                    for c, det in diff_present(pa, pb):
                        vs.append(viol('reread-' + c, sig, det, **scope))
                for c, det in cl.lu_compare(fb, r):
                    vs.append(viol('reread-source-' + c, sig, det, **scope))
                cl.write('landuse', fb, p2)
                b1, b2 = open(p1, 'rb').read(), open(p2, 'rb').read()
                if b1 != b2:
                    i = next((k for k in range(min(len(b1), len(b2))) if b1[k] != b2[k]), min(len(b1), len(b2)))
                    vs.append(viol('rewrite-not-identical', sig, 'second write differs from the first at byte %d '
                                   '(%d vs %d bytes)' % (i, len(b1), len(b2)), **scope))
            except Exception as e:
                vs.append(viol('raises', sig, '%s: %r' % (type(e).__name__, e), exc=type(e).__name__, **scope))
        return result('viol' if vs else 'ok', vs, [h64(raw)], 7, h64('c08', sorted(d.items(), key=str)),
                      h64(raw) if not vs else None)

    def groups(self, tier):
        # (binary punch files are decided by C18 and, for the layout, by C09)
        for d in c09.Prop.groups(self, tier):
            if d['fmt'] != 'bpch':
                yield d

    def bounds(self, tier):
        b = c09.Prop.bounds(self, tier)
        b.pop('bpch', None)
        return b

    def run_one(self, d):
        if d['fmt'] == 'landuse':
            return self.run_landuse(d)
        r = camx_u.materialize(d)
        fmt = d['fmt']
        raw = camx_u.encode(r)
        p0, p1, p2 = self.path('r0'), self.path('w1'), self.path('w2')
        for p in (p1, p2):
            if os.path.exists(p):
                os.unlink(p)
        with open(p0, 'wb') as fh:
            fh.write(raw)
        scope = c09.scope_of(d, r)
        st = [h64(raw)]
        vs = []
        sig = ('roundtrip', fmt)
        try:
            fa = cl.open_mm(fmt, p0, r)
            pa = present(fa)
            if fmt in ('uamiv', 'lateral_boundary'):
                # another file of the same format, on another grid, opened and read while the first is open:
                # nothing of it may reach the first file's rewrite
                d2 = dict(d, shape=[d['shape'][0] % 3 + 1, d['shape'][1] % 3 + 2, d['shape'][2]])
                r2 = camx_u.materialize(d2)
                p3 = self.path('other')
                with open(p3, 'wb') as fh:
                    fh.write(camx_u.encode(r2))
                fo = cl.open_mm(fmt, p3, r2)
                present(fo)
            cl.write(fmt, fa, p1)
            fb = cl.open_mm(fmt, p1, r)
            pb = present(fb)
            for c, det in diff_present(pa, pb):
                vs.append(viol('reread-' + c, sig, det, **scope))
            cl.write(fmt, fb, p2)
            b1, b2 = open(p1, 'rb').read(), open(p2, 'rb').read()
            if b1 != b2:
                i = next((k for k in range(min(len(b1), len(b2))) if b1[k] != b2[k]), min(len(b1), len(b2)))
                vs.append(viol('rewrite-not-identical', sig, 'second write differs from the first at byte %d '
                               '(%d vs %d bytes)' % (i, len(b1), len(b2)), **scope))
            # time flags of the re-read file are the encoded instants
            tb, te = camx_u.expected_tflag(r)
            n = len(r['steps'])
            if 'TFLAG' in fb.variables.keys():
                gt = [tuple(int(x) for x in row) for row in np.asarray(fb.variables['TFLAG'][...])[:, 0, :]]
                if gt != tb[:n]:
                    vs.append(viol('instants', sig, 'TFLAG after write/read %r, encoded %r' % (gt, tb[:n]), **scope))
            if 'ETFLAG' in fb.variables.keys():
                ge = [tuple(int(x) for x in row) for row in np.asarray(fb.variables['ETFLAG'][...])[:, 0, :]]
                if [camx_u.norm_flag(x) for x in ge] != [camx_u.norm_flag(x) for x in te[:n]]:
                    vs.append(viol('end-instants', sig, 'ETFLAG after write/read %r, encoded %r' % (ge, te[:n]),
                                   **scope))
        except Exception as e:
            vs.append(viol('raises', sig, '%s: %r' % (type(e).__name__, e), exc=type(e).__name__, **scope))
        # the same content as a file built in memory (no ETFLAG, non-contiguous arrays): write, read,
        # compare with the source, write again
        for rev in ((False, True) if fmt in camx_u.MET and len(cl.varnames(r)) >= 2 else (False,)):
            sig = ('roundtrip-hand-built-reversed' if rev else 'roundtrip-hand-built', fmt)
            for p in (p1, p2):
                if os.path.exists(p):
                    os.unlink(p)
            try:
                fh_ = c09.build_hand(r, rev)
                cl.write(fmt, fh_, p1)
                fb = cl.open_mm(fmt, p1, r)
                for c, det in cl.compare_to_recipe(fb, r):
                    if c in ('grid-header', 'file-header') and fmt not in ('uamiv', 'lateral_boundary'):
                        continue
                    vs.append(viol('reread-' + c, sig, det, **scope))
                cl.write(fmt, fb, p2)
                b1, b2 = open(p1, 'rb').read(), open(p2, 'rb').read()
                if b1 != b2:
                    i = next((k for k in range(min(len(b1), len(b2))) if b1[k] != b2[k]), min(len(b1), len(b2)))
                    vs.append(viol('rewrite-not-identical', sig, 'second write differs from the first at byte %d '
                                   '(%d vs %d bytes)' % (i, len(b1), len(b2)), **scope))
            except Exception as e:
                vs.append(viol('raises', sig, '%s: %r' % (type(e).__name__, e), exc=type(e).__name__, **scope))
        return result('viol' if vs else 'ok', vs, st, 7, h64('c08', sorted(d.items(), key=str)),
                      h64(raw) if not vs else None)
