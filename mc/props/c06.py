"""C06 - file arithmetic, eval and mask follow masked-array semantics (Engine A)."""
import itertools
import operator
from collections import OrderedDict

import numpy as np

from ..engine import core
from ..engine.core import viol, result, h64
from ..ref import rfile
from ..ref.rfile import RFile, RVar
from .. import lib

OPS = OrderedDict([
    ('+', operator.add), ('-', operator.sub), ('*', operator.mul), ('/', operator.truediv),
    ('//', operator.floordiv), ('**', operator.pow), ('%', operator.mod),
    ('<', operator.lt), ('<=', operator.le), ('>', operator.gt), ('>=', operator.ge),
    ('==', operator.eq), ('!=', operator.ne),
])
FALPHA = [0., 1., -1., 2., 3., 0.5, -0.5, 1e30, 1e-30]
IALPHA = [0, 1, -1, 2, 3, 7, -7, 100, -100]
UALPHA = [0, 1, 2, 3, 7, 100, 200, 254, 255]
DTYPES = ('f4', 'f8', 'i4', 'i2', 'i8', 'u1')
MASKCFG = ('plain', 'masked-left', 'masked-right', 'masked-both')


def alpha(dt):
    k = np.dtype(dt).kind
    return FALPHA if k == 'f' else (UALPHA if k == 'u' else IALPHA)


def operand(dt, side, masked, shape):
    a = alpha(dt)
    n = len(a)
    vals = np.repeat(a, n) if side == 'L' else np.tile(a, n)
    vals = np.array(vals).astype(dt).reshape(shape)
    mask = np.zeros(vals.shape, bool)
    if masked:
        mask.flat[(3 if side == 'L' else 5)::7] = True
    return vals, mask


def build_pair(ldt, rdt, mcfg, shape, bcast=False):
    dims = ('t', 'x') if len(shape) == 2 else ('x',)
    files = []
    for side, dt in (('L', ldt), ('R', rdt)):
        f = RFile()
        for d, n in zip(dims, shape):
            f.dims[d] = [1 if (bcast and side == 'R' and d == 't') else n, False]
        masked = (mcfg in ('masked-left', 'masked-both') and side == 'L') or \
            (mcfg in ('masked-right', 'masked-both') and side == 'R')
        v, m = operand(dt, side, masked, shape)
        if bcast and side == 'R':
            # rows 0..8 of the right operand hold the alphabet once each: keep the row with the masked cell
            v, m = v[:1].copy(), m[:1].copy()
        f.vars['V'] = RVar(dims, v, m, OrderedDict([('units', 'ppb')]), fill=(99 if np.dtype(dt).kind == 'u' else -999) if masked else None,
                           masked=masked)
        # coordinate variable: values differ between the operands (must come from the left)
        xc = np.arange(shape[-1], dtype='d') * (1. if side == 'L' else 10.)
        f.vars['x'] = RVar(('x',), xc, attrs=OrderedDict([('units', 'm')]))
        f.coords.add('x')
        if side == 'L':
            f.vars['W'] = RVar(dims, np.arange(int(np.prod(shape)), dtype='f').reshape(shape),
                               attrs=OrderedDict([('units', 'K')]))
        f.attrs['title'] = side
        files.append(f)
    return files


EVALS = [
    ('N = A * 2', True), ('N = M * 2', True), ('N = A * 2; P = N + 1', True), ('A = A + 1', True),
    ('N = np.sqrt(A)', True), ('N = A * fval', True), ('N = np.ma.masked_greater(A, 1005)', True),
    ('N = B * 2', True), ('N = A * 2\nP = A * 3', True), ('N = A / (A - 1003)', True),
    ('N = np.where(A > 1004, A, -A)', True), ('N = M + M0f', True),
    ('N = ival + fval', False), ('N = A[:, 0]', False),
]

PREDS = ('where', 'less', 'less_equal', 'greater', 'greater_equal', 'values', 'equal', 'invalid')
# fractional thresholds: an integer cell next to one is on a definite side of it
THR = {'less': 1002.5, 'less_equal': 1003.5, 'greater': 1009.5, 'greater_equal': 1008.5,
       'values': 1005., 'equal': 1006.}


def mask_file():
    rec = {'lens': {'t': 2, 'z': 2, 'x': 3}, 'unl': True, 'kinds': ['A', 'M', 'B', 'X', 'Zx', 'S', 'Mn']}
    f = rfile.ufile(rec)
    a2 = f.vars['A'].data.copy().astype('f')
    a2.flat[0] = np.nan
    a2.flat[1] = np.inf
    f.vars['A2'] = RVar(('t', 'z', 'x'), a2, attrs=OrderedDict([('units', 'ppb')]))
    # same SHAPE as A (t and z have equal lengths) but different dimensions: mask(where, dims=...) must skip it
    # a variable of A's shape that already carries a mask of its own
    ma = f.vars['A'].data.copy() + 2
    mm = np.zeros(ma.shape, bool)
    mm.flat[5] = True
    f.vars['MA'] = RVar(('t', 'z', 'x'), ma, mm, OrderedDict([('units', 'ppb')]), fill=-999., masked=True)
    f.vars['AT'] = RVar(('z', 't', 'x'), f.vars['A'].data.copy() + 1, attrs=OrderedDict([('units', 'ppb')]))
    # cells equal to, within 5e-6 (relative) of, and clearly apart from the `equal` and `values` thresholds:
    # `equal` is documented as exact, `values` as numpy.ma.masked_values (rtol 1e-5, atol 1e-8)
    e_, v_ = THR['equal'], THR['values']
    ne = np.array([e_, e_ * (1 + 5e-6), e_ * (1 - 5e-6), e_ + 0.5, v_, v_ * (1 + 5e-6), v_ * (1 - 5e-6), v_ + 0.5,
                   e_ + 1e-9, v_ - 1e-9, 1007.5, 1004.5]).reshape(2, 2, 3)
    f.vars['NE'] = RVar(('t', 'z', 'x'), ne, attrs=OrderedDict([('units', 'ppb')]))
    # integer variables holding every whole number around the thresholds (signed and unsigned, 16 and 32 bit)
    ni = (1000 + np.arange(12)).reshape(2, 2, 3)
    f.vars['NI'] = RVar(('t', 'z', 'x'), ni.astype('i4'), attrs=OrderedDict([('units', 'count')]))
    f.vars['NU'] = RVar(('t', 'z', 'x'), ni.astype('u2'), attrs=OrderedDict([('units', 'count')]))
    return f


class Prop(core.Prop):
    ID = 'C06'
    ENGINE = 'A'
    RULE = ('operators: every (left dtype, right dtype, mask configuration, operator, array shape) with operands '
            'holding ALL value pairs of the dtype alphabet (81 cells; elementwise operations are cell-independent); '
            'eval: 14 programs x {copyall, not}; mask: the power set of the 8 predicates x dims given/omitted x '
            'coords flag; non-trivial iff the expected result differs from the left operand / input; distinct = '
            'distinct (inputs, operation)')
    ASSUMPTIONS = [
        'reference = the same operator applied by numpy to the raw operand data, operand masks united, non-finite '
        'results masked; integer division/modulo by zero cells are not compared (numpy returns 0, masked arrays '
        'mask them: the statement does not decide)',
        'integer ** negative integer raises in numpy: out of domain',
        'container type not compared; values under masked cells not compared',
    ]

    def bounds(self, tier):
        return {'dtypes': DTYPES, 'operators': list(OPS), 'mask_cfg': MASKCFG,
                'shapes': [(81,), (9, 9)] + ([(3, 27)] if tier == 'thorough' else []),
                'eval_programs': len(EVALS), 'mask_predicates': PREDS}

    def worker_init(self):
        import os
        import shutil
        import tempfile
        core.load_lib()
        base = '/dev/shm' if os.path.isdir('/dev/shm') else None
        self.tmp = tempfile.mkdtemp(prefix='verif_c06_', dir=base)
        import atexit
        atexit.register(shutil.rmtree, self.tmp, True)

    def groups(self, tier):
        b = self.bounds(tier)
        dts = DTYPES if tier == 'thorough' else ('f4', 'f8', 'i4', 'u1')
        for ldt in dts:
            for rdt in dts:
                for shape in b['shapes']:
                    yield {'part': 'binop', 'ldt': ldt, 'rdt': rdt, 'shape': list(shape)}
                # the right operand has a length-1 first dimension (hourly values minus their time mean): it is
                # broadcast to the left operand, masks included
                yield {'part': 'binop', 'ldt': ldt, 'rdt': rdt, 'shape': [9, 9], 'bcast': True}
        for i in range(len(EVALS)):
            yield {'part': 'eval', 'prog': i}
        yield {'part': 'evalseq'}
        for r in range(0, len(PREDS) + 1):
            yield {'part': 'mask', 'npred': r}

    def expand(self, group):
        if group['part'] == 'binop':
            for mcfg in MASKCFG:
                for op in OPS:
                    yield dict(group, mcfg=mcfg, op=op)
        elif group['part'] == 'eval':
            for copyall in (False, True):
                yield dict(group, copyall=copyall)
        elif group['part'] == 'evalseq':
            for first in ('N = A', 'N = A * 1', 'N = M'):
                for second in ('P = A * 2', 'P = M + M0f', 'P = A + B'):
                    for backing in ('memory', 'netcdf'):
                        yield dict(group, first=first, second=second, backing=backing)
        else:
            for sub in itertools.combinations(PREDS, group['npred']):
                for dims in (False, True):
                    for coords in (False, True):
                        yield {'part': 'mask', 'preds': list(sub), 'dims': dims, 'coords': coords}

    def run_one(self, case):
        return getattr(self, 'run_' + case['part'])(case)

    # ------------------------------------------------------------------
    def run_binop(self, case):
        lf, rf = build_pair(case['ldt'], case['rdt'], case['mcfg'], tuple(case['shape']), bool(case.get('bcast')))
        L, R = lib.to_real(lf), lib.to_real(rf)
        lsnap = lib.snap(L)
        op = case['op']
        a, b = lf.vars['V'], rf.vars['V']
        st = [rfile.canon(lf), rfile.canon(rf)]
        sig = ('operator', op)
        scope = dict(op=op, ldt=case['ldt'], rdt=case['rdt'], mcfg=case['mcfg'],
                     kinds=np.dtype(case['ldt']).kind + np.dtype(case['rdt']).kind, bcast=bool(case.get('bcast')))
        indomain = True
        with np.errstate(all='ignore'):
            try:
                exp = OPS[op](a.data, b.data)
            except Exception:
                exp, indomain = None, False
        vs = []
        try:
            with np.errstate(all='ignore'):
                got = OPS[op](L, R)
        except Exception as e:
            if indomain:
                vs.append(viol('in-domain-raises', sig, '%s: %r' % (type(e).__name__, e),
                               exc=type(e).__name__, **scope))
                return result('viol', vs, st)
            return result('ood-raise', [], st)
        if not indomain:
            return result('ood-returned', [], st)
        wf = lib.wellformed(got)
        if wf:
            vs.append(viol('not-wellformed', sig, '; '.join(wf), **scope))
            return result('viol', vs, st)
        g = lib.snap(got)
        # V: elementwise result, masks united, non-finite masked
        emask = a.mask | b.mask
        bdata, bmask = np.broadcast_to(b.data, exp.shape), np.broadcast_to(b.mask, exp.shape)
        if exp.dtype.kind in 'fc':
            emask = emask | ~np.isfinite(exp)
        skip = np.zeros(exp.shape, bool)
        if op in ('//', '%', '/') and exp.dtype.kind in 'iu':
            skip = (bdata == 0)
        if op in ('//', '%') and exp.dtype.kind in 'f':
            pass
        if 'V' not in g.vars:
            vs.append(viol('variable-missing', sig, 'V missing from result', **scope))
        else:
            gv = g.vars['V']
            if gv.data.shape != exp.shape:
                vs.append(viol('shape', sig, '%r != %r' % (gv.data.shape, exp.shape), **scope))
            else:
                mm = (gv.mask != emask) & ~skip
                if mm.any():
                    i = int(np.flatnonzero(mm)[0])
                    vs.append(viol('mask-differs', sig,
                                   '%d cells; e.g. %r %s %r (operand masks %s,%s): masked=%s expected %s'
                                   % (mm.sum(), a.data.flat[i], op, bdata.flat[i], a.mask.flat[i],
                                      bmask.flat[i], gv.mask.flat[i], emask.flat[i]),
                                   operand_masked=bool((a.mask | bmask).flat[i]), **scope))
                keep = ~emask & ~gv.mask & ~skip
                # numerically equal (numpy.ma arithmetic turns -0.0 into +0.0; not a value difference)
                if not np.array_equal(gv.data[keep], exp[keep], equal_nan=True):
                    ne = np.flatnonzero(keep.ravel() & ~(np.isclose(gv.data.astype('d').ravel(),
                                                                    exp.astype('d').ravel(), rtol=0, atol=0,
                                                                    equal_nan=True)))
                    i = int(ne[0]) if ne.size else 0
                    vs.append(viol('values-differ', sig, 'e.g. %r %s %r = %r expected %r (dtype %s vs %s)'
                                   % (a.data.flat[i], op, bdata.flat[i], gv.data.flat[i], exp.flat[i],
                                      gv.data.dtype, exp.dtype), **scope))
        # coordinate variable from the left, unchanged; W (missing on the right) copied
        for k in ('x', 'W'):
            if k not in g.vars:
                vs.append(viol('variable-missing', sig, '%s missing from result' % k, **scope))
            else:
                d = rfile.var_diff(k, g.vars[k], lsnap.vars[k])
                if d:
                    vs.append(viol('coordinate-not-passed-through' if k == 'x' else 'unmatched-variable-changed',
                                   sig, '; '.join(d)[:600], **scope))
        triv = exp.dtype == a.data.dtype and np.array_equal(exp, a.data) and not emask.any()
        return result('viol' if vs else 'ok-binop', vs, st, 1,
                      None if triv else h64('binop', case['ldt'], case['rdt'], case['mcfg'], op, case['shape'], case.get('bcast')),
                      rfile.canon(g) if not vs else None)

    # ------------------------------------------------------------------
    def eval_file(self):
        rec = {'lens': {'t': 2, 'z': 2, 'x': 3}, 'unl': True, 'kinds': ['A', 'M', 'B', 'X', 'S']}
        f = rfile.ufile(rec)
        m0 = f.vars['M'].copy()
        m0.data = m0.data + 5
        m0.mask = np.roll(m0.mask, 2)
        f.vars['M0f'] = m0
        # a global attribute with the name of a variable: the variable wins in expressions
        f.attrs['B'] = 5
        f.attrs['M'] = 2.5
        return f

    def run_eval(self, case):
        expr, indomain = EVALS[case['prog']]
        rf0 = self.eval_file()
        real = lib.to_real(rf0)
        rf = lib.snap(real, cls='PseudoNetCDFFile')
        st = [rfile.canon(rf)]
        sig = ('eval', 'prog%d' % case['prog'])
        scope = dict(prog=case['prog'], copyall=case['copyall'], expr=expr.replace('\n', ';'))
        # reference evaluation on plain masked arrays
        env = {k: np.ma.MaskedArray(v.data.copy(), mask=v.mask.copy()) if v.mask.any() else v.data.copy()
               for k, v in rf.vars.items()}
        for k, v in rf.attrs.items():
            env.setdefault(k, v)
        env['np'] = np
        names_before = set(env)
        expenv = dict(env)
        with np.errstate(all='ignore'):
            exec(compile(expr, 'ref', 'exec'), {}, expenv)
        import ast
        assigned = []
        for node in ast.walk(ast.parse(expr)):
            if isinstance(node, ast.Assign):
                for t in node.targets:
                    if isinstance(t, ast.Name) and t.id not in assigned:
                        assigned.append(t.id)
        vs = []
        try:
            with np.errstate(all='ignore'):
                got = real.eval(expr, inplace=False, copyall=case['copyall'])
        except Exception as e:
            if indomain:
                vs.append(viol('in-domain-raises', sig, '%s: %r' % (type(e).__name__, e),
                               exc=type(e).__name__, **scope))
                return result('viol', vs, st)
            return result('ood-raise', [], st)
        wf = lib.wellformed(got)
        if wf:
            if indomain:
                vs.append(viol('not-wellformed', sig, '; '.join(wf), **scope))
                return result('viol', vs, st)
            return result('ood-illformed', [], st)     # C01 judges out-of-domain well-formedness
        if not indomain:
            return result('ood-returned', [], st)
        g = lib.snap(got)
        for k in assigned:
            ev = expenv[k]
            ed = np.array(np.ma.getdata(ev))
            em = np.array(np.ma.getmaskarray(ev)).reshape(ed.shape)
            if ed.dtype.kind in 'fc':
                pass
            if k not in g.vars:
                vs.append(viol('assigned-variable-missing', sig, '%s not in result %r' % (k, list(g.vars)),
                               **scope))
                continue
            gv = g.vars[k]
            if gv.data.shape != ed.shape:
                vs.append(viol('shape', sig, '%s: %r != %r' % (k, gv.data.shape, ed.shape), **scope))
                continue
            if not np.array_equal(gv.mask, em):
                vs.append(viol('mask-differs', sig, '%s: mask %s expected %s' % (
                    k, gv.mask.astype(int).ravel().tolist(), em.astype(int).ravel().tolist()), **scope))
                continue
            keep = ~em
            if not rfile.values_identical(gv.data[keep], ed[keep]):
                vs.append(viol('values-differ', sig, '%s: %s expected %s' % (
                    k, rfile._short(gv.data[keep]), rfile._short(ed[keep])), **scope))
        if case['copyall']:
            for k, v in rf.vars.items():
                if k in assigned:
                    continue
                if k not in g.vars:
                    vs.append(viol('copyall-variable-missing', sig, k, **scope))
                else:
                    d = rfile.var_diff(k, g.vars[k], v)
                    if d:
                        vs.append(viol('copyall-variable-changed', sig, '; '.join(d)[:500], **scope))
        return result('viol' if vs else 'ok-eval', vs, st, 1, h64('eval', expr, case['copyall']),
                      rfile.canon(g) if not vs else None)

    def run_evalseq(self, case):
        """two evaluations on one file object; every variable of the first result is overwritten in between:
        the second result must equal the one a fresh file gives"""
        import os
        P = lib.pnc()

        def make():
            f = lib.to_real(self.eval_file())
            if case['backing'] == 'netcdf':
                path = os.path.join(self.tmp, 'ev_%d.nc' % os.getpid())
                if os.path.exists(path):
                    os.unlink(path)
                f.save(path, format='NETCDF4_CLASSIC', verbose=0).close()
                f = P.pncopen(path, format='netcdf')
            return f
        sig = ('eval-sequence', case['backing'])
        scope = dict(first=case['first'], second=case['second'], backing=case['backing'])
        st = [h64('evalseq', case['first'], case['second'], case['backing'])]
        vs = []
        try:
            with np.errstate(all='ignore'):
                fresh = lib.snap(make().eval(case['second'], inplace=False))
                f = make()
                r1 = f.eval(case['first'], inplace=False)
                lib.scribble(r1)
                got = lib.snap(f.eval(case['second'], inplace=False))
        except Exception as e:
            vs.append(viol('in-domain-raises', sig, '%s: %r' % (type(e).__name__, e), exc=type(e).__name__, **scope))
            return result('viol', vs, st)
        d = rfile.file_diff(got, fresh)
        if d:
            vs.append(viol('depends-on-earlier-eval', sig, '; '.join(d)[:800], **scope))
        return result('viol' if vs else 'ok-eval', vs, st, 3, st[0], rfile.canon(got) if not vs else None)

    # ------------------------------------------------------------------
    def run_mask(self, case):
        rf0 = mask_file()
        real = lib.to_real(rf0)
        rf = lib.snap(real, cls='PseudoNetCDFFile')
        st = [rfile.canon(rf)]
        preds = case['preds']
        kw = {}
        where = None
        wdims = ('t', 'z', 'x')
        if 'where' in preds:
            where = np.zeros(rf.vars['A'].data.shape, bool)
            where.flat[::4] = True
            kw['where'] = where
            if case['dims']:
                kw['dims'] = wdims
        for p in preds:
            if p in THR:
                kw[p] = THR[p]
        if 'invalid' in preds:
            kw['invalid'] = True
        if case['coords']:
            kw['coords'] = True
        sig = ('mask', '+'.join(preds) or 'none')
        scope = dict(preds='+'.join(preds) or 'none', dims=case['dims'], coords=case['coords'],
                     npred=len(preds))
        vs = []
        try:
            with np.errstate(all='ignore'):
                got = real.mask(**kw)
        except Exception as e:
            vs.append(viol('in-domain-raises', sig, '%s: %r' % (type(e).__name__, e), exc=type(e).__name__,
                           **scope))
            return result('viol', vs, st)
        wf = lib.wellformed(got)
        if wf:
            vs.append(viol('not-wellformed', sig, '; '.join(wf), **scope))
            return result('viol', vs, st)
        g = lib.snap(got)
        # masking returns a new file: the source is left as it was, and asking again gives the same answer
        if rfile.canon(lib.snap(real, cls='PseudoNetCDFFile')) != st[0]:
            vs.append(viol('source-modified', sig, '; '.join(rfile.file_diff(lib.snap(real), rf))[:600]
                           or 'source changed', **scope))
        else:
            try:
                with np.errstate(all='ignore'):
                    g2 = lib.snap(real.mask(**kw))
                if rfile.canon(g2) != rfile.canon(g):
                    vs.append(viol('second-call-differs', sig, '; '.join(rfile.file_diff(g2, g))[:600], **scope))
            except Exception as e:
                vs.append(viol('second-call-differs', sig, 'second call raised %r' % e, **scope))
        anyexp = False
        for k, v in rf.vars.items():
            if k not in g.vars:
                vs.append(viol('variable-missing', sig, k, **scope))
                continue
            em = v.mask.copy()
            iscoord = k in rf.coords
            if not iscoord or case['coords']:
                d = v.data
                with np.errstate(all='ignore'):
                    if where is not None:
                        applies = (v.dims == wdims) if case['dims'] else (d.shape == where.shape)
                        if applies:
                            em |= where
                    if 'less' in preds:
                        em |= d < THR['less']
                    if 'less_equal' in preds:
                        em |= d <= THR['less_equal']
                    if 'greater' in preds:
                        em |= d > THR['greater']
                    if 'greater_equal' in preds:
                        em |= d >= THR['greater_equal']
                    if 'values' in preds:
                        em |= np.abs(d - THR['values']) <= 1e-8 + 1e-5 * abs(THR['values'])
                    if 'equal' in preds:
                        em |= d == THR['equal']
                    if 'invalid' in preds and d.dtype.kind in 'fc':
                        em |= ~np.isfinite(d)
            gv = g.vars[k]
            if em.any() and not np.array_equal(em, v.mask):
                anyexp = True
            if gv.data.shape != v.data.shape or not np.array_equal(gv.mask, em):
                vs.append(viol('mask-differs', sig, '%s: mask %s expected %s' % (
                    k, gv.mask.astype(int).ravel().tolist(), em.astype(int).ravel().tolist()),
                    var=k, **scope))
                continue
            keep = ~em
            if not rfile.values_identical(gv.data[keep], v.data[keep]):
                vs.append(viol('unmasked-value-altered', sig, '%s: %s expected %s' % (
                    k, rfile._short(gv.data[keep]), rfile._short(v.data[keep])), var=k, **scope))
        return result('viol' if vs else 'ok-mask', vs, st, 1,
                      h64('mask', preds, case['dims'], case['coords']) if anyexp else None,
                      rfile.canon(g) if not vs else None)
