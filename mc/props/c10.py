"""C10 - IOAPI metadata stays coherent under every operation (Engine B)."""
import os
import shutil
import tempfile
from collections import OrderedDict

import numpy as np

from ..engine import core, bfs, report
from ..engine.core import viol, h64
from ..ref import rfile, rops
from .. import lib, ioapi_u

STD4 = ('TSTEP', 'LAY', 'ROW', 'COL')
STD3 = ('TSTEP', 'LAY', 'PERIM')

GRIDDESC_TXT = """' '
'LamCon_40N_97W'
 2         33.000        45.000       -97.000       -97.000        40.000
' '
'TINY'
'LamCon_40N_97W' -24000.0 -12000.0 12000.0 12000.0 3 2 1
' '
"""


def coherent(f):
    """the clauses of the C10 statement; returns list of (clause, detail)"""
    out = []
    att = {k: getattr(f, k) for k in f.ncattrs()}
    dims = {k: len(d) for k, d in f.dimensions.items()}
    nvars = att.get('NVARS')
    vl = att.get('VAR-LIST')
    if nvars is None or vl is None:
        out.append(('missing-NVARS-or-VAR-LIST', 'NVARS=%r VAR-LIST=%r' % (nvars, vl)))
        return out
    listed = [vl[i:i + 16].strip() for i in range(0, len(vl), 16)] if len(vl) % 16 == 0 else None
    if listed is None:
        out.append(('varlist-not-fixed-width', 'len(VAR-LIST)=%d is not a multiple of 16' % len(vl)))
        listed = vl.split()
    counts = OrderedDict()
    counts['NVARS'] = int(nvars)
    counts['len(VAR-LIST)/16'] = len(vl) / 16.
    counts['len(VAR dimension)'] = dims.get('VAR')
    counts['TFLAG.shape[1]'] = f.variables['TFLAG'].shape[1] if 'TFLAG' in f.variables else None
    counts['listed variables'] = len(listed)
    if len(set(counts.values())) != 1:
        out.append(('variable-counts-disagree', ', '.join('%s=%s' % kv for kv in counts.items())))
    for k in listed:
        if k not in f.variables:
            out.append(('listed-variable-missing', 'VAR-LIST names %r which is not a variable %r'
                        % (k, list(f.variables.keys()))))
        else:
            vd = tuple(f.variables[k].dimensions)
            if vd not in (STD4, STD3):
                out.append(('listed-variable-nonstandard-dims', '%s has dimensions %r' % (k, vd)))
    for a, d in (('NROWS', 'ROW'), ('NCOLS', 'COL'), ('NLAYS', 'LAY')):
        if d in dims:
            if a not in att or int(att[a]) != dims[d]:
                out.append(('count-attribute-vs-dimension', '%s=%r but len(%s)=%d' % (a, att.get(a), d, dims[d])))
    if 'LAY' in dims:
        vg = np.atleast_1d(att.get('VGLVLS', np.zeros(0)))
        if vg.size != dims['LAY'] + 1:
            out.append(('vglvls-length', 'len(VGLVLS)=%d but %d layers (VGLVLS=%s)'
                        % (vg.size, dims['LAY'], vg)))
    if 'TFLAG' in f.variables and f.variables['TFLAG'].shape[0] >= 1 and f.variables['TFLAG'].shape[1] >= 1:
        t0 = np.asarray(f.variables['TFLAG'][...])[0, 0, :]
        try:
            same = int(att.get('SDATE')) == int(t0[0]) and int(att.get('STIME')) == int(t0[1]) \
                and float(t0[0]) == int(t0[0]) and float(t0[1]) == int(t0[1])
        except Exception:
            same = False
        if not same:
            out.append(('start-vs-first-tflag', 'SDATE,STIME=%r,%r but TFLAG[0,0]=%s'
                        % (att.get('SDATE'), att.get('STIME'), t0)))
    return out


def seed_list(tier):
    seeds = [
        {'kind': 'ioapi', 'rec': ioapi_u.recipe(nt=2, nl=2, nr=2, nc=3, nv=2, start=0)},
        {'kind': 'ioapi', 'rec': ioapi_u.recipe(nt=1, nl=1, nr=1, nc=1, nv=1, start=1)},
        {'kind': 'ioapi', 'rec': ioapi_u.recipe(nt=2, nl=2, nr=1, nc=2, nv=2, start=3, kind='bdy')},
        {'kind': 'ioapi', 'rec': ioapi_u.recipe(nt=3, nl=3, nr=2, nc=2, nv=3, start=2, masked=True)},
        {'kind': 'ioapi', 'rec': ioapi_u.recipe(nt=2, nl=1, nr=2, nc=2, nv=2, start=5, kind='disk')},
        # a variable name of exactly 16 characters (runs into the next name in the fixed-width VAR-LIST)
        {'kind': 'ioapi', 'rec': dict(ioapi_u.recipe(nt=2, nl=1, nr=2, nc=2, nv=2, start=0),
                                      names=['ABCDEFGHIJKLMNOP', 'NO2'])},
        # a file on disk whose VAR-LIST lost its trailing blanks (generic netCDF tools strip them): a set-up state
        {'kind': 'ioapi', 'setup': True,
         'rec': dict(ioapi_u.recipe(nt=2, nl=2, nr=2, nc=2, nv=3, start=0, kind='disk'), strip_varlist=True)},
        # time flags that carry seconds (a 7.5-minute step starting at hh:mm:30)
        {'kind': 'ioapi', 'rec': ioapi_u.recipe(nt=3, nl=1, nr=2, nc=2, nv=2, start=0, tstep=730)},
        {'kind': 'griddesc', 'withcf': False, 'nsteps': 2},
        {'kind': 'griddesc', 'withcf': True, 'nsteps': 1},
        # dates beyond 19 Jan 2038 (32-bit seconds since 1970) with and without CF time variables
        {'kind': 'griddesc', 'withcf': True, 'nsteps': 3, 'sdate': 2049365, 'stime': 220000},
    ]
    return seeds


def menu(f):
    dims = OrderedDict((k, len(d)) for k, d in f.dimensions.items())
    ops = []
    vl = [k for k in f.variables if tuple(f.variables[k].dimensions) in (STD4, STD3)]
    bdy = 'PERIM' in dims

    def add(op, dom=True, **kw):
        d = {'op': op, 'dom': bool(dom)}
        d.update(kw)
        ops.append(d)
    add('copy')
    add('copy_nodata')
    sdims = [d for d in ('TSTEP', 'LAY', 'ROW', 'COL', 'PERIM') if d in dims]
    for d in sdims:
        n = dims[d]
        add('slice', n >= 1, sel=[[d, ['i', 0]]])
        add('slice', n >= 1, sel=[[d, ['i', -1]]])
        add('slice', n >= 2, sel=[[d, ['s', 1, None, None]]])
        add('slice', n >= 2, sel=[[d, ['s', None, -1, None]]])
        add('slice', n >= 1, sel=[[d, ['l', [0, n - 1]]]])
        if d == 'TSTEP':
            # a boolean mask (the result of a comparison on the times) whose first element is False
            add('slice', n >= 2, sel=[[d, ['b', [0] + [1] * (n - 1)]]])
        # the documented short names f.slice / f.subset / f.apply are the same operations
        add('slice', n >= 2, sel=[[d, ['s', 1, None, None]]], alias=True)
    if len(vl) >= 1:
        add('subset', True, keys=[vl[0]])
        add('subset', len(vl) >= 2, keys=[vl[0]], exclude=True)
        add('subset', True, keys=[vl[-1]], alias=True)
        newv = next((n for n in ('TFLAG_QA', 'RN2') if n not in f.variables), None)
        if newv:
            add('renameVariable', True, old=vl[-1], new=newv)
            # a name longer than the 16 characters of a VAR-LIST field cannot be listed: the count shrinks while the
            # time flags are carried along; two variables exchanging their names
            if 'N234567890123456X' not in f.variables:
                add('renameVariable', True, old=vl[-1], new='N234567890123456X')
            add('renameVariables_swap', len(vl) >= 2, a=vl[0], b=vl[-1])
            # only the renamed variable is kept: the variable count shrinks
            add('renameVariables_only', len(vl) >= 2, old=vl[0], new=newv)
        addv = next((n for n in ('ADD1', 'ADD2') if n not in f.variables), None)
        if addv and not bdy and all(d in dims for d in STD4):
            # a variable added by hand (copy + createVariable): TFLAG is one column short until the next update
            # (the user is expected to call updatemeta: the state itself is not judged, what follows from it is)
            add('addVariable', True, name=addv, setup=True)
        nv = next((n for n in ('N1', 'N2') if n not in f.variables), None)
        if nv:
            add('eval', True, expr='%s = %s * 2' % (nv, vl[0]))
            add('eval', True, expr='%s = %s + 1' % (nv, vl[-1]), copyall=True)
    for d in sdims:
        n = dims[d]
        add('apply', n >= 1, dim=d, fn=['r', 'mean'])
        add('apply', n >= 1, dim=d, fn=['r', 'max'])
        add('apply', n >= 1, dim=d, fn=['r', 'mean'], alias=True)
        add('apply', n >= 2, dim=d, fn=['f', 'diff'])
        # functions that keep the length but not the first element (the time flags are metadata, not data)
        add('apply', n >= 2, dim=d, fn=['f', 'reverse'])
        if d == 'TSTEP':
            add('apply', n >= 2, dim=d, fn=['f', 'demean'])
    add('mask', True, greater=10010.5)
    # masking that also looks at coordinate variables: the time flags must come out untouched
    # (with CF coordinate variables present the caller asks for the time coordinate itself to be masked:
    # whatever follows cannot decode times any more - outside the domain)
    add('mask', 'time' not in f.variables, greater=0.5, coords=True)
    if 'TSTEP' in dims:
        add('stack', True, dim='TSTEP')
    if 'LAY' in dims and dims['LAY'] >= 1 and hasattr(f, 'VGLVLS') and \
            np.atleast_1d(f.VGLVLS).size == dims['LAY'] + 1:
        add('interpSigma', True, vglvls=[1., .5, 0.], interptype='linear')
        add('interpSigma', True, vglvls=[1., .875, .75, .25, 0.], interptype='conserve')
    add('binop', True, o='+')
    return ops


# operations that hand on whatever their input had: a state that is incoherent because of a set-up step (a
# variable added by hand without updatemeta, a VAR-LIST stripped by another tool) stays so through them;
# everything else rebuilds the IOAPI metadata and must come out coherent whatever went in
PRESERVING = ('copy', 'copy_nodata', 'stack', 'binop')


def do_op(f, op):
    n = op['op']
    if n == 'copy':
        return f.copy()
    if n == 'copy_nodata':
        return f.copy(data=False)
    if n == 'slice':
        return (f.slice if op.get('alias') else f.sliceDimensions)(
            **OrderedDict((d, rops.sel_to_py(tuple(s))) for d, s in op['sel']))
    if n == 'subset':
        return (f.subset if op.get('alias') else f.subsetVariables)(list(op['keys']), exclude=op.get('exclude', False))
    if n == 'renameVariable':
        return f.renameVariable(op['old'], op['new'])
    if n == 'renameVariables_swap':
        return f.renameVariables(**{op['a']: op['b'], op['b']: op['a']})
    if n == 'renameVariables_only':
        return f.renameVariables(copyall=False, **{op['old']: op['new']})
    if n == 'addVariable':
        g = f.copy()
        v = g.createVariable(op['name'], 'f', STD4)
        v.units, v.long_name, v.var_desc = 'ppmV'.ljust(16), op['name'].ljust(16), op['name'].ljust(80)
        v[...] = 1.5
        return g
    if n == 'eval':
        return f.eval(op['expr'], inplace=False, copyall=op.get('copyall', False))
    if n == 'apply':
        fn = op['fn']
        return (f.apply if op.get('alias') else f.applyAlongDimensions)(
            **{op['dim']: fn[1] if fn[0] == 'r' else rops.FUNCS[fn[1]]})
    if n == 'mask':
        return f.mask(greater=op['greater'], coords=op.get('coords', False))
    if n == 'stack':
        return f.stack(f, op['dim'])
    if n == 'interpSigma':
        return f.interpSigma(np.array(op['vglvls'], dtype='f'), interptype=op['interptype'])
    if n == 'binop':
        return f + f
    raise ValueError(op)


class Prop(bfs.BfsProp):
    ID = 'C10'
    RULE = ('breadth-first search from IOAPI seed files (gridded, 1x1x1x1, boundary, masked, disk-backed, '
            'GRIDDESC with/without CF variables) under the IOAPI menu (copy, slice int/slice/list on every '
            'standard dimension, subset, subset-exclude, renameVariable, eval, eval-copyall, apply mean/max/diff '
            'on every standard dimension, mask, stack in time, interpSigma linear/conserve, +) to the depth '
            'bound; the coherence clauses are evaluated on every state; non-trivial = successor differs from '
            'predecessor; distinct = distinct (state, operation, successor)')
    ASSUMPTIONS = [
        'coherence clauses are exactly those of the statement (counts, listed variables exist with standard '
        'dimensions, NROWS/NCOLS/NLAYS, len(VGLVLS)=NLAYS+1, SDATE/STIME = first time flag)',
        'operations leaving the IOAPI data model (zipped selections, slicing VAR/DATE-TIME, empty windows, '
        'excluding the last variable) are outside the domain and not explored',
    ]

    def depth(self, tier):
        return 2 if tier == 'quick' else 4

    def bounds(self, tier):
        return {'depth': self.depth(tier), 'seeds': len(seed_list(tier)), 'menu': '<= ~65 instances per state; at the fourth level of the thorough tier one representative per '
                                                                   'operation kind and dimension (~35)'}

    def seeds(self, tier):
        return seed_list(tier)

    def worker_init(self):
        core.load_lib()
        base = '/dev/shm' if os.path.isdir('/dev/shm') else None
        self.tmp = tempfile.mkdtemp(prefix='verif_c10_', dir=base)
        import atexit
        atexit.register(shutil.rmtree, self.tmp, True)
        # fixed path: the reader records the path in the file it builds, so a
        # per-worker temporary name would make replays process-dependent
        gdir = os.path.join(base or tempfile.gettempdir(), 'verif_c10_griddesc')
        os.makedirs(gdir, exist_ok=True)
        self.gd = os.path.join(gdir, 'GRIDDESC')
        if not os.path.exists(self.gd):
            tmpname = self.gd + '.%d' % os.getpid()
            with open(tmpname, 'w') as fh:
                fh.write(GRIDDESC_TXT)
            os.replace(tmpname, self.gd)

    def build_seed(self, s):
        P = lib.pnc()
        if s['kind'] == 'ioapi':
            return ioapi_u.build(s['rec'], self.tmp)
        if s['kind'] == 'griddesc':
            return P.pncopen(self.gd, format='griddesc', GDNAM='TINY', withcf=s['withcf'],
                             nsteps=s['nsteps'], SDATE=s.get('sdate', 2000060), STIME=s.get('stime', 230000),
                             TSTEP=10000,
                             VGLVLS=(1., .5, 0.))
        raise ValueError(s)

    def menu(self, state):
        return menu(state)

    def menu_at(self, state, hist):
        """the full menu below the depth bound; at the bound of the thorough tier (fourth operation) one
        representative per kind of operation and dimension"""
        ops_ = menu(state)
        if self.tier != 'thorough' or len(hist) < 3:
            return ops_
        keep = []
        for op in ops_:
            if op.get('alias'):
                continue
            if op['op'] == 'slice' and op['sel'][0][1] not in (['i', 0], ['s', 1, None, None]):
                continue
            if op['op'] == 'apply' and op['fn'][1] not in ('mean', 'diff', 'reverse'):
                continue
            keep.append(op)
        return keep

    def apply(self, state, op):
        return do_op(state, op)

    def canon(self, state):
        return rfile.canon(lib.snap(state))

    def check_state(self, state, seedrec, hist):
        cls = type(state).__name__
        if seedrec.get('setup'):
            return []      # an input another tool has touched: not judged itself, everything reachable from it is
        return [viol(c, ('seed', seedrec['kind'], cls), d, opname='seed', cls=cls, seedkind=seedrec['kind'])
                for c, d in coherent(state)]

    def step(self, state, seedrec, hist, op):
        cls = type(state).__name__
        before = self.canon(state)
        fnname = op['fn'][1] if 'fn' in op else ''
        scope = {'opname': op['op'], 'cls': cls,
                 'seldim': op['sel'][0][0] if op['op'] == 'slice' else op.get('dim', ''),
                 'selkind': op['sel'][0][1][0] if op['op'] == 'slice' else fnname,
                 'seedkind': seedrec['kind'] + ('-cf' if seedrec.get('withcf') else '')
                 + ('-' + seedrec['rec']['kind'] if 'rec' in seedrec else '')}
        sig = (op['op'], scope['seldim'], scope['selkind'])
        vs = []
        if not op['dom']:
            return {'op': op, 'hash': None, 'viol': [], 'outcome': 'ood-skipped', 'trans': 0,
                    'rebuild': False}
        pre = set(c for c, d in coherent(state))
        try:
            new = self.apply(state, op)
        except core.Timeout:
            raise
        except Exception as e:
            after = self.canon(state)
            vs.append(viol('in-domain-raises', sig, '%s: %r' % (type(e).__name__, e),
                           exc=type(e).__name__, **scope))
            return {'op': op, 'hash': None, 'viol': vs, 'outcome': 'viol', 'trans': 1,
                    'rebuild': after != before}
        h = None
        try:
            # (only when really nothing is listable: a result with NVARS = 0 that holds a variable with the
            # standard dimensions and a name of at most 16 characters is a violation like any other)
            nolist = int(getattr(new, 'NVARS', 1)) == 0 and not any(
                tuple(v_.dimensions) in (STD4, STD3) and len(k_) <= 16 for k_, v_ in new.variables.items())
        except Exception:
            nolist = False
        if nolist:
            # no variable left that an IOAPI list can name (e.g. the only variable was given a 17-character
            # name): the result is not an IOAPI file any more - outside the domain, not explored further
            return {'op': op, 'hash': None, 'viol': [], 'outcome': 'ood-returned', 'trans': 1,
                    'rebuild': self.canon(state) != before}
        try:
            wf = lib.wellformed(new)
            problems = coherent(new) if not wf else [('not-wellformed', '; '.join(wf))]
        except Exception as e:
            problems = [('cannot-audit', repr(e))]
        for c, d in problems:
            if op.get('setup') or (c in pre and op['op'] in PRESERVING):
                continue      # a plain copy of a state that was incoherent already: reported where it arose
            vs.append(viol(c, sig, d, **scope))
        if not problems or (op.get('setup') and not any(c in ('not-wellformed', 'cannot-audit') for c, d in problems)):
            h = self.canon(new)
        after = self.canon(state)
        return {'op': op, 'hash': h, 'viol': vs, 'outcome': 'viol' if vs else 'ok', 'trans': 1,
                'nt': h64(before, op, h) if (h is not None and h != before) else None,
                'rebuild': after != before}


def main(tier, seed, t0):
    prop, agg, extra, caps = bfs.explore(__name__, tier, seed)
    return report.finish(prop, agg, tier, seed, t0, extra_cov=extra, caps_hit=caps)
