"""Bridge between the reference model and the real library.

to_real(rfile)   builds a fresh real PseudoNetCDFFile through the public API
snap(realfile)   extracts dims/vars/attrs of a real file into an RFile
Only this module (and the property drivers) import PseudoNetCDF.
"""
from collections import OrderedDict

import numpy as np

from .ref.rfile import RFile, RVar
from .engine import core


def pnc():
    return core.load_lib()


def to_real(rf, cls=None):
    P = pnc()
    f = (cls or P.PseudoNetCDFFile)()
    for k, v in rf.attrs.items():
        setattr(f, k, v.copy() if isinstance(v, np.ndarray) else v)
    for k, (n, u) in rf.dims.items():
        d = f.createDimension(k, n)
        if u:
            d.setunlimited(True)
    for k, v in rf.vars.items():
        kw = OrderedDict((ak, (av.copy() if isinstance(av, np.ndarray) else av))
                         for ak, av in v.attrs.items())
        tc = 'c' if v.data.dtype.kind == 'S' else v.data.dtype.char
        if v.masked:
            fv = kw.pop('fill_value', None)
            var = f.createVariable(k, tc, v.dims, fill_value=v.fill if v.fill is not None else fv, **kw)
            var[...] = np.ma.MaskedArray(v.data.copy(), mask=v.mask.copy())
        else:
            var = f.createVariable(k, tc, v.dims, **kw)
            var[...] = v.data.copy()
    if rf.coords:
        f.setCoords(sorted(rf.coords))
    return f


def _attrs_of(o):
    out = OrderedDict()
    if not hasattr(o, 'ncattrs'):
        return out
    for k in o.ncattrs():
        out[k] = getattr(o, k)
    return out


def snap_var(v):
    arr = v[...]
    mask = np.ma.getmaskarray(arr)
    data = np.array(np.ma.getdata(arr))
    if isinstance(mask, np.ndarray):
        mask = np.array(mask, dtype=bool).reshape(data.shape)
    masked = isinstance(arr, np.ma.MaskedArray)
    fill = None
    if masked:
        try:
            fill = arr.fill_value
            fill = fill.item() if hasattr(fill, 'item') else fill
        except Exception:
            fill = None
    attrs = _attrs_of(v)
    rv = RVar(tuple(v.dimensions), data, mask, attrs, fill=None, masked=masked)
    rv.fill = fill
    return rv


def snap(f, cls=None):
    o = RFile()
    o.cls = cls if cls is not None else type(f).__name__
    for k, d in f.dimensions.items():
        o.dims[k] = [len(d), bool(d.isunlimited())]
    for k in list(f.variables.keys()):
        o.vars[k] = snap_var(f.variables[k])
    o.attrs = _attrs_of(f)
    try:
        o.coords = set(f.getCoords())
    except Exception:
        o.coords = set()
    return o


def wellformed(f):
    """C01 invariant on a real file; returns list of problems."""
    out = []
    dims = f.dimensions
    for k in list(f.variables.keys()):
        try:
            v = f.variables[k]
        except Exception as e:
            out.append('variable %s listed but not retrievable: %r' % (k, e))
            continue
        vd = getattr(v, 'dimensions', None)
        if not isinstance(vd, tuple):
            out.append('variable %s has no dimension tuple (%r)' % (k, vd))
            continue
        missing = [d for d in vd if d not in dims]
        if missing:
            out.append('variable %s uses dimensions %r absent from file %r'
                       % (k, missing, list(dims)))
            continue
        want = tuple(len(dims[d]) for d in vd)
        if tuple(v.shape) != want:
            out.append('variable %s%r shape %r != dimension lengths %r'
                       % (k, vd, tuple(v.shape), want))
        if not hasattr(v, 'ncattrs'):
            out.append('variable %s (%s) has no attribute interface (ncattrs)' % (k, type(v).__name__))
            continue
        for a in v.ncattrs():
            try:
                getattr(v, a)
            except Exception as e:
                out.append('variable %s attribute %s listed but not retrievable' % (k, a))
    for a in f.ncattrs():
        try:
            getattr(f, a)
        except Exception:
            out.append('global attribute %s listed but not retrievable' % a)
    return out
