"""Independent ICARTT (NASA Ames FFI 1001) parser/printer written from the
format description.  No PseudoNetCDF import."""


class IcarttError(Exception):
    pass


def parse(text):
    lines = text.split('\n')
    if lines and lines[-1] == '':
        lines = lines[:-1]
    first = [s.strip() for s in lines[0].replace(',', ' ').split()]
    if len(first) != 2 or first[1] != '1001':
        raise IcarttError('first line %r' % lines[0])
    nlhead = int(first[0])
    out = {'nlhead': nlhead}
    out['pi'], out['org'], out['source'], out['mission'] = [l.strip() for l in lines[1:5]]
    out['volume'] = lines[5].strip()
    out['dates'] = lines[6].strip()
    out['interval'] = lines[7].strip()
    out['indep'] = [s.strip() for s in lines[8].split(',')]
    ndep = int(lines[9].strip())
    out['ndep'] = ndep
    out['scales'] = [float(s) for s in lines[10].replace(',', ' ').split()]
    out['missing'] = [float(s) for s in lines[11].replace(',', ' ').split()]
    out['depvars'] = []
    for l in lines[12:12 + ndep]:
        parts = [s.strip() for s in l.split(',')]
        out['depvars'].append((parts[0], parts[1] if len(parts) > 1 else None))
    i = 12 + ndep
    nspecial = int(lines[i].strip())
    out['special'] = lines[i + 1:i + 1 + nspecial]
    i = i + 1 + nspecial
    nnormal = int(lines[i].strip())
    out['normal'] = lines[i + 1:i + 1 + nnormal]
    # actual header length: position of the column-name line (independent of the declared counts)
    want = [out['indep'][0]] + [d[0] for d in out['depvars']]
    out['actual_header_lines'] = None
    for j in range(12 + ndep, len(lines)):
        if [t.strip() for t in lines[j].replace(',', ' ').split()] == want:
            out['actual_header_lines'] = j + 1
            break
    hdr = lines[nlhead - 1] if nlhead - 1 < len(lines) else ''
    out['columns'] = [s.strip() for s in hdr.replace(',', ' ').split()]
    rows = []
    for l in lines[nlhead:]:
        if l.strip() == '':
            continue
        rows.append([float(s) for s in l.replace(',', ' ').split()])
    out['rows'] = rows
    return out


def render(rec):
    """rec: dict(pi, org, source, mission, volume, sdate, wdate, interval, indep (name, unit or None),
    deps [(name, unit, missing)], special [], normal [(key, value)], rows [[...]])"""
    ndep = len(rec['deps'])
    lines = []
    lines.append(rec.get('pi', 'PI'))
    lines.append(rec.get('org', 'ORG'))
    lines.append(rec.get('source', 'SRC'))
    lines.append(rec.get('mission', 'MISSION'))
    lines.append(rec.get('volume', '1, 1'))
    lines.append('%s, %s' % (rec.get('sdate', '2019, 07, 01'), rec.get('wdate', '2019, 07, 02')))
    lines.append(str(rec.get('interval', 0)))
    nm, un = rec['indep']
    lines.append(nm if un is None else '%s, %s' % (nm, un))
    lines.append(str(ndep))
    lines.append(', '.join('1' for _ in rec['deps']))
    lines.append(', '.join(repr(d[2]) if d[2] != int(d[2]) else str(int(d[2])) for d in rec['deps']))
    for name, unit, miss in rec['deps']:
        lines.append('%s, %s' % (name, unit))
    lines.append(str(len(rec.get('special', []))))
    lines.extend(rec.get('special', []))
    lines.append(str(len(rec.get('normal', [])) + 1))
    for k, v in rec.get('normal', []):
        lines.append('%s: %s' % (k, v))
    lines.append(', '.join([nm] + [d[0] for d in rec['deps']]))
    n = len(lines) + 1
    out = ['%d, 1001' % n] + lines
    for row in rec['rows']:
        out.append(', '.join('%.6e' % v for v in row))
    return '\n'.join(out) + '\n'
