#!/bin/bash
# Offline setup: install jsonschema (evidence self-validation) next to the
# framework and byte-compile it.  /venv itself is left untouched.
set -e
cd "$(dirname "$0")"
export PIP_NO_INDEX=1
if [ ! -d .deps/jsonschema ]; then
    /venv/bin/pip install --quiet --no-index --find-links /opt/veriftools/wheels \
        --target .deps jsonschema || echo "setup: jsonschema unavailable; evidence validated by built-in checker"
fi
/venv/bin/python -m compileall -q mc >/dev/null || true
mkdir -p evidence replays
echo "setup ok"
