"""The IOAPI universe I (DESIGN section 3): small IOAPI-convention files built
through the library's public constructors."""
import os
import numpy as np

from .engine import core

STARTS = [  # (SDATE, STIME) instants chosen to cross day / year / leap-day boundaries
    (1999365, 230000), (2000059, 230000), (2000060, 230000), (2001001, 0),
    (2019182, 120000), (2000366, 233000),
    (2049365, 220000),      # beyond 19 Jan 2038 (32-bit seconds since 1970)
]
VG = np.array([1., .75, .5, .25, 0.], dtype='f')


def recipe(nt=2, nl=2, nr=2, nc=3, nv=2, start=0, tstep=10000, kind='grid', masked=False):
    return {'nt': nt, 'nl': nl, 'nr': nr, 'nc': nc, 'nv': nv, 'start': start,
            'tstep': tstep, 'kind': kind, 'masked': masked}


def build(rec, tmpdir=None):
    P = core.load_lib()
    from PseudoNetCDF.cmaqfiles import ioapi_base
    nt, nl, nr, nc, nv = rec['nt'], rec['nl'], rec['nr'], rec['nc'], rec['nv']
    sdate, stime = STARTS[rec['start']]
    names = (rec.get('names') or ['O3', 'NO2', 'CO'])[:nv]
    arrays = {}
    kind = rec['kind']
    bdy = kind == 'bdy'
    for i, n in enumerate(names):
        if bdy:
            nperim = 2 * (nr + nc) + 4
            a = (10000 * (i + 1) + np.arange(nt * nl * nperim) + 1).reshape(nt, nl, nperim)
        else:
            a = (10000 * (i + 1) + np.arange(nt * nl * nr * nc) + 1).reshape(nt, nl, nr, nc)
        a = a.astype('f')
        if rec.get('masked') and i == 0:
            a = np.ma.MaskedArray(a, mask=np.zeros(a.shape, bool))
            a.mask.flat[1 if a.size > 1 else 0] = True
        arrays[n] = a
    fa = dict(SDATE=sdate, STIME=stime, TSTEP=rec['tstep'],
              XORIG=-8., YORIG=-4., XCELL=2., YCELL=4.,
              VGLVLS=VG[:nl + 1].copy() if nl < 4 else VG.copy(), VGTOP=5000.,
              NCOLS=nc, NROWS=nr, NLAYS=nl)
    if rec.get('vg') is not None:
        fa['VGLVLS'] = np.array(rec['vg'], dtype='f')
        assert len(rec['vg']) == nl + 1
    elif nl == len(VG) - 1:
        fa['VGLVLS'] = VG.copy()
    else:
        lv = VG[:nl + 1].copy()
        fa['VGLVLS'] = lv
    if bdy:
        fa['FTYPE'] = 2
    f = ioapi_base.from_arrays(attrs={'units': 'ppmV'}, fileattrs=fa, **arrays)
    if rec.get('longname'):
        # descriptive long_name that differs from the variable key
        f.variables[names[0]].long_name = 'Ozone mix ratio'.ljust(16)
    if rec.get('arrorig'):
        # origins held as numpy arrays (mutable attribute objects)
        f.XORIG = np.array([float(f.XORIG)])
        f.YORIG = np.array(float(f.YORIG))
    if kind == 'disk':
        path = os.path.join(tmpdir, 'ioapi_%d.nc' % os.getpid())
        if os.path.exists(path):
            os.unlink(path)
        f.save(path, format='NETCDF3_CLASSIC', verbose=0).close()
        if rec.get('strip_varlist'):
            # what generic netCDF tools do to character attributes: trailing blanks are gone
            import netCDF4
            with netCDF4.Dataset(path, 'a') as ds:
                ds.setncattr('VAR-LIST', ds.getncattr('VAR-LIST').rstrip())
        f = P.pncopen(path, format='ioapi')
    return f
