"""C11 - IOAPI subsetting preserves geo- and time-referencing (Engine A)."""
import itertools
from collections import OrderedDict

import numpy as np

from ..engine import core
from ..engine.core import viol, result, h64
from ..ref import rops, rtime
from .. import lib, ioapi_u

DIMS = ('TSTEP', 'LAY', 'ROW', 'COL')


def windows(n, tier):
    """contiguous windows of an axis of length n: list of (selector, a, b)"""
    out = []
    for k in range(n):
        out.append((('i', k), k, k + 1))
        out.append((('i', k - n), k, k + 1))
        out.append((('I', k), k, k + 1))      # a numpy integer (e.g. from unravel_index / argmax)
    seen = set()
    for a in range(n):
        for b in range(a + 1, n + 1):
            spell = [(a, b), (a if a else None, b if b < n else None),
                     (a - n, (b - n) if b < n else None)]
            if a == 0:
                # a negative start that reaches past the first cell is clipped to it
                spell.append((-n - 3, b if b < n else None))
            if tier == 'thorough':
                spell.append((a, b if b < n else n + 2))
            for s0, s1 in spell:
                if (s0, s1) in seen:
                    continue
                seen.add((s0, s1))
                out.append((('s', s0, s1, None), a, b))
                if tier == 'thorough' and (s0, s1, 1) not in seen:
                    seen.add((s0, s1, 1))
                    out.append((('s', s0, s1, 1), a, b))
    return out


class Prop(core.Prop):
    ID = 'C11'
    ENGINE = 'A'
    RULE = ('every IOAPI file of the universe x every combination of contiguous windows (positive int, '
            'negative int, every unit-stride slice spelling) over 1-2 (quick) / 1-4 (thorough) of TSTEP, LAY, '
            'ROW, COL is sliced once; non-trivial iff the window drops at least one cell; distinct = distinct '
            '(file, window combination)')
    ASSUMPTIONS = [
        'cell sizes and origins are dyadic so origin arithmetic is exact in float64',
        'expected times are computed by independent calendar arithmetic (mc/ref/rtime.py) from the '
        'recipe (SDATE, STIME, TSTEP), not from the library',
    ]

    def bounds(self, tier):
        return {'files': 'nt,nl,nr,nc in {(3,3,3,3),(3,2,2,3),(2,1,1,2)} x 6 start instants x TSTEP in '
                         '{10000, 3000, 240000, 1000000}' if tier == 'thorough' else
                         '4 files (3,3,3,3)/(3,2,2,3) with starts crossing year end, leap day; TSTEP 1h, 30min, 24h',
                'windows_per_axis(n=3)': len(windows(3, tier)),
                'max_windowed_dims': 2 if tier == 'quick' else 4}

    def files(self, tier):
        if tier == 'quick':
            return [ioapi_u.recipe(nt=3, nl=3, nr=3, nc=3, nv=2, start=0, tstep=10000),
                    ioapi_u.recipe(nt=3, nl=2, nr=2, nc=3, nv=1, start=1, tstep=3000),
                    ioapi_u.recipe(nt=3, nl=2, nr=3, nc=2, nv=1, start=2, tstep=240000),
                    ioapi_u.recipe(nt=2, nl=1, nr=1, nc=2, nv=1, start=5, tstep=10000),
                    # a weekly file: a step of 100 h or more (7 digits in HHMMSS form)
                    ioapi_u.recipe(nt=3, nl=1, nr=1, nc=2, nv=1, start=1, tstep=1680000),
                    # a step with seconds (7 min 30 s) and a file whose time flags are not evenly spaced
                    ioapi_u.recipe(nt=4, nl=1, nr=2, nc=2, nv=1, start=0, tstep=730),
                    dict(ioapi_u.recipe(nt=5, nl=1, nr=2, nc=2, nv=1, start=3, tstep=10000), uneven=True)]
        out = []
        for shape in ((3, 3, 3, 3), (3, 2, 2, 3), (2, 1, 1, 2)):
            for start in range(len(ioapi_u.STARTS)):
                for tstep in (10000, 3000, 240000, 1000000):
                    if shape != (3, 3, 3, 3) and (start + tstep // 1000) % 3:
                        continue
                    out.append(ioapi_u.recipe(nt=shape[0], nl=shape[1], nr=shape[2], nc=shape[3],
                                              nv=1, start=start, tstep=tstep))
        for start in (0, 2, 3):
            out.append(ioapi_u.recipe(nt=4, nl=1, nr=2, nc=2, nv=1, start=start, tstep=730))
            out.append(ioapi_u.recipe(nt=4, nl=1, nr=2, nc=2, nv=1, start=start, tstep=130))
            out.append(dict(ioapi_u.recipe(nt=5, nl=1, nr=2, nc=2, nv=1, start=start, tstep=10000), uneven=True))
        return out

    def groups(self, tier):
        maxd = 2 if tier == 'quick' else 4
        nbig = 0
        for rec in self.files(tier):
            big = (rec['nt'], rec['nl'], rec['nr'], rec['nc']) == (3, 3, 3, 3)
            nbig += big
            for r in range(1, maxd + 1):
                if r >= 3 and not (big and nbig in (1, 6, 11, 16)):
                    continue     # 3-4 simultaneous windows: one full-size file per TSTEP value
                for sub in itertools.combinations(DIMS, r):
                    yield {'ioapi': rec, 'dims': list(sub)}

    def expand(self, group):
        rec = group['ioapi']
        n = {'TSTEP': rec['nt'], 'LAY': rec['nl'], 'ROW': rec['nr'], 'COL': rec['nc']}
        tier = self.tier
        if len(group['dims']) >= 3:
            tier = 'quick'      # canonical spellings only for 3-4 simultaneous windows
        axes = [windows(n[d], tier) for d in group['dims']]
        if group['dims'] == ['TSTEP'] and n['TSTEP'] >= 3:
            # strided windows: every k-th step (the new step is k times the old one, also beyond 24 h)
            for k in (2, 3):
                for a in (0, 1):
                    if len(range(a, n['TSTEP'], k)) >= 2:
                        yield {'ioapi': rec, 'win': [['TSTEP', ['s', a, None, k], a, n['TSTEP']]], 'stride': k}
            # the same windows on a source that keeps its time axis in SDATE/STIME/TSTEP only (no TFLAG variable)
            for w in windows(n['TSTEP'], 'quick'):
                if w[0][0] != 'I':
                    yield {'ioapi': rec, 'win': [['TSTEP', list(w[0]), w[1], w[2]]], 'notflag': True}
        if len(group['dims']) <= 2:
            # the same windows (canonical spellings) taken through the documented alias f.slice(...)
            for combo in itertools.product(*[windows(n[d], 'quick') for d in group['dims']]):
                if all(w[0][0] != 'I' for w in combo):
                    yield {'ioapi': rec, 'alias': True, 'win': [[d, list(w[0]), w[1], w[2]]
                                                                for d, w in zip(group['dims'], combo)]}
        for combo in itertools.product(*axes):
            yield {'ioapi': rec, 'win': [[d, list(w[0]), w[1], w[2]]
                                         for d, w in zip(group['dims'], combo)]}
            if 'TSTEP' in group['dims'] and len(group['dims']) <= 2 and all(w[0][0] != 'I' for w in combo) \
                    and not rec.get('uneven'):
                # (not for unevenly spaced files: a stale TFLAG has to be rebuilt from SDATE/TSTEP, which
                # cannot describe uneven records)
                # the same window on a file to which a variable was added by hand beforehand
                yield {'ioapi': rec, 'added': True, 'win': [[d, list(w[0]), w[1], w[2]]
                                                            for d, w in zip(group['dims'], combo)]}

    def run_one(self, case):
        rec = case['ioapi']
        f = ioapi_u.build(rec)
        if case.get('added') and rec['kind'] == 'grid':
            v = f.createVariable('ADDED', 'f', ('TSTEP', 'LAY', 'ROW', 'COL'))
            v.units, v.long_name, v.var_desc = 'ppmV'.ljust(16), 'ADDED'.ljust(16), 'ADDED'.ljust(80)
            v[...] = 2.5
        if case.get('notflag') and not rec.get('uneven'):
            del f.variables['TFLAG']
        sdate, stime = ioapi_u.STARTS[rec['start']]
        exp_times = rtime.ioapi_times(sdate, stime, rec['tstep'], rec['nt'])
        if rec.get('uneven'):
            # records that are not evenly spaced (steps 0, 1, 2, 26, 27 hours after the start: a day is missing)
            allt = rtime.ioapi_times(sdate, stime, rec['tstep'], 30)
            exp_times = [allt[k] for k in (0, 1, 2, 26, 27)[:rec['nt']]]
            tf = f.variables['TFLAG']
            for i, t in enumerate(exp_times):
                d_, h_ = rtime.to_ioapi(t)
                tf[i, :, 0] = d_
                tf[i, :, 1] = h_
        src = {k: getattr(f, k) for k in ('XORIG', 'YORIG', 'XCELL', 'YCELL', 'TSTEP')}
        src_vg = np.array(f.VGLVLS)
        vs = []
        # the source itself decodes to the encoded instants (precondition, also C12)
        kw = OrderedDict()
        cls = []
        win = {}
        for d, s, a, b in case['win']:
            kw[d] = rops.sel_to_py(tuple(s))
            cls.append('%s:%s' % (d, {'i': 'int', 'I': 'npint'}.get(s[0], 'slice')))
            win[d] = (a, b)
        sig = ('slice' if case.get('alias') else 'sliceDimensions', '+'.join(sorted(c.split(':')[0] for c in cls)))
        scope = {'dims': '+'.join(sorted(win)), 'selkinds': '+'.join(sorted(cls)),
                 'tstep': rec['tstep'], 'added': bool(case.get('added')), 'uneven': bool(rec.get('uneven')),
                 'stride': case.get('stride', 1), 'notflag': bool(case.get('notflag')),
                 'alias': bool(case.get('alias'))}
        try:
            g = f.slice(**kw) if case.get('alias') else f.sliceDimensions(**kw)
        except Exception as e:
            vs.append(viol('in-domain-raises', sig, '%s: %r' % (type(e).__name__, e),
                           exc=type(e).__name__, **scope))
            return result('viol', vs, [h64(rec)], 1)
        a, b = win.get('COL', (0, rec['nc']))
        if float(g.XORIG) != float(src['XORIG']) + a * float(src['XCELL']):
            vs.append(viol('xorig', sig, 'XORIG=%r expected %r (first column %d)'
                           % (g.XORIG, src['XORIG'] + a * src['XCELL'], a), **scope))
        a, b = win.get('ROW', (0, rec['nr']))
        if float(g.YORIG) != float(src['YORIG']) + a * float(src['YCELL']):
            vs.append(viol('yorig', sig, 'YORIG=%r expected %r (first row %d)'
                           % (g.YORIG, src['YORIG'] + a * src['YCELL'], a), **scope))
        if float(g.XCELL) != float(src['XCELL']) or float(g.YCELL) != float(src['YCELL']):
            vs.append(viol('cell-size-changed', sig, 'XCELL,YCELL=%r,%r' % (g.XCELL, g.YCELL), **scope))
        a, b = win.get('LAY', (0, rec['nl']))
        gvg = np.atleast_1d(np.array(g.VGLVLS))
        if gvg.shape != src_vg[a:b + 1].shape or gvg.tobytes() != src_vg[a:b + 1].astype(gvg.dtype).tobytes():
            vs.append(viol('vglvls', sig, 'VGLVLS=%s expected %s (layers %d:%d)'
                           % (gvg, src_vg[a:b + 1], a, b), **scope))
        a, b = win.get('TSTEP', (0, rec['nt']))
        want = exp_times[a:b]
        if case.get('stride'):
            want = exp_times[a:b:case['stride']]
        try:
            got = [rtime.to_utc_naive(t) for t in g.getTimes()]
        except Exception as e:
            got = None
            vs.append(viol('times-undecodable', sig, 'getTimes raised %r' % e, **scope))
        if got is not None and got != want:
            vs.append(viol('times', sig, 'getTimes=%s expected %s' % (got, want), **scope))
        ws, wt = rtime.to_ioapi(want[0])
        if int(g.SDATE) != ws or int(g.STIME) != wt:
            vs.append(viol('sdate-stime', sig, 'SDATE,STIME=%r,%r expected %d,%d'
                           % (g.SDATE, g.STIME, ws, wt), **scope))
        if case.get('stride') and not rec.get('uneven'):
            ts = int(src['TSTEP'])
            sec = (ts // 10000 * 3600 + ts % 10000 // 100 * 60 + ts % 100) * case['stride']
            want_ts = sec // 3600 * 10000 + sec % 3600 // 60 * 100 + sec % 60
            if int(g.TSTEP) != want_ts:
                vs.append(viol('tstep-of-strided-window', sig, 'TSTEP=%r expected %d (every %d-th step of %d)'
                               % (g.TSTEP, want_ts, case['stride'], ts), **scope))
        elif int(g.TSTEP) != int(src['TSTEP']) and not rec.get('uneven'):
            vs.append(viol('tstep-changed', sig, 'TSTEP=%r expected %r (window of %d steps)'
                           % (g.TSTEP, src['TSTEP'], b - a), nsteps=b - a, **scope))
        nontriv = any((b_ - a_) < {'TSTEP': rec['nt'], 'LAY': rec['nl'], 'ROW': rec['nr'],
                                    'COL': rec['nc']}[d] for d, (a_, b_) in win.items())
        st = [h64(rec), h64(rec, sorted(win.items()))]
        return result('viol' if vs else 'ok', vs, st, 1,
                      h64(rec, case['win'], case.get('added'), case.get('stride'), case.get('notflag'), case.get('alias')) if nontriv else None,
                      h64(float(g.XORIG), float(g.YORIG), gvg.tobytes(), repr(got)) if not vs else None)
