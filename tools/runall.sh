#!/bin/bash
# usage: tools/runall.sh [quick|thorough] [ids...]   - runs the registered checks one after another, prints one summary line each
TIER=${1:-quick}; shift
IDS=${@:-C01 C02 C03 C04 C05 C06 C07 C08 C09 C10 C11 C12 C13 C14 C15 C16 C17 C18 C19 C20}
cd "$(dirname "$0")/.."
rc_all=0
for id in $IDS; do
  out=$(./check $id --tier $TIER 2>&1); rc=$?
  echo "rc=$rc $(echo "$out" | grep "^$id tier=" | tail -1)"
  echo "$out" | grep -E '^(VIOLATION|HARNESS-ERROR)' | head -5
  [ $rc -ne 0 ] && rc_all=1
done
exit $rc_all
