"""C04 - stacking concatenates in order and inverts splitting (Engine A)."""
import os
import shutil
import tempfile
import itertools
from collections import OrderedDict

import numpy as np

from ..engine import core
from ..engine.core import viol, result, h64
from ..ref import rfile, rops
from .. import lib


def offset_file(rf, off, stackdim=None):
    """distinct conforming file: every numeric value shifted, except coordinate
    variables along the stack dimension (they must stay monotone)"""
    o = rf.copy()
    for k, v in o.vars.items():
        if v.data.dtype.kind not in 'fiu':
            continue
        if k in o.coords and (stackdim is None or stackdim in v.dims):
            continue
        v.data = (v.data + np.asarray(off).astype(v.data.dtype)).astype(v.data.dtype)
    return o


class Prop(core.Prop):
    ID = 'C04'
    ENGINE = 'A'
    RULE = ('every (file of U, dimension, composition of its length into consecutive pieces, '
            'splitter in {reference slicer, library slicer}, stacking form) and every ordered '
            'pair/triple of distinct conforming files is executed once; non-trivial iff more than '
            'one piece/file is stacked; distinct = distinct (input canon(s), dimension, cut points, form)')
    ASSUMPTIONS = [
        'reference = numpy.concatenate of data and of masks in argument order; variables without '
        'the stack dimension come from the first file',
        'dimension order of the result is not compared (the statement does not mention it)',
        'disk form (pncmfopen) compares dimensions, data and masks only: attribute typing on disk '
        'belongs to C07',
    ]

    def bounds(self, tier):
        th = tier == 'thorough'
        return {'t': [1, 2, 3] + ([4, 5] if th else []), 'z': [1, 2],
                'x': [1, 2, 3, 4],
                'kinds': [['A', 'M', 'B', 'X', 'Zx', 'S'], ['A', 'M', 'B', 'Zx', 'S', 'M0', 'Ch', 'Mn', 'Sw']] +
                         ([['A', 'M', 'B', 'X', 'Zx', 'S', 'Ch', 'M0']] if th else []),
                'forms': ['method', 'stack_files', 'pncmfopen', 'method-disk', 'method-iter', 'method-tuple', 'open_mfdataset',
                          'open_mfdataset-auto'],
                'multi': 'ordered pairs and triples%s of offset copies with lengths 1..%d along the stack dimension'
                         % (' and quadruples' if th else '', 3 if th else 2),
                'multi_lens': [1, 2, 3] if th else [1, 2],
                'ioapi': 'IOAPI files (gridded, boundary, masked; %s start instants; 2-%d steps) split along TSTEP '
                         'by the library slicer into every composition and stacked again' % (
                             '6' if th else '3', 5 if th else 4)}

    def worker_init(self):
        core.load_lib()
        base = '/dev/shm' if os.path.isdir('/dev/shm') else None
        self.tmp = tempfile.mkdtemp(prefix='verif_c04_', dir=base)
        import atexit
        atexit.register(shutil.rmtree, self.tmp, True)

    def groups(self, tier):
        b = self.bounds(tier)
        for nt in b['t']:
            for nz in b['z']:
                for nx in b['x']:
                    for ki, kinds in enumerate(b['kinds']):
                        for unl in (False, True):
                            frec = {'lens': {'t': nt, 'z': nz, 'x': nx}, 'unl': unl,
                                    'kinds': kinds}
                            for d in ('t', 'z', 'x'):
                                yield {'kind': 'split', 'file': frec, 'dim': d}
        # ordered pairs / triples of distinct files
        for d in ('t', 'z', 'x'):
            for ki, kinds in enumerate(b['kinds']):
                reps = [3, 4] if tier == 'thorough' else [2]
                for rep in reps:
                    for lens_d in itertools.product(b['multi_lens'] if rep < 4 else [1, 2], repeat=rep):
                        for unl in (False, True):
                            yield {'kind': 'multi', 'dim': d, 'kinds': kinds, 'dlens': list(lens_d),
                                   'unl': unl}
        # the same file given twice (a, b, a): nothing may be de-duplicated
        for d in ('t', 'z', 'x'):
            for unl in (False, True):
                yield {'kind': 'multi', 'dim': d, 'kinds': b['kinds'][0], 'dlens': [1, 2, 1], 'unl': unl,
                       'repeat': True}
        # two stackings in one process: the second must not depend on the first (class-level writer state)
        for d1 in ('t', 'x'):
            for d2 in ('t', 'z', 'x'):
                for unl1 in (False, True):
                    for unl2 in (False, True):
                        yield {'kind': 'seq', 'dim': d2, 'first_dim': d1, 'first_unl': unl1, 'unl': unl2,
                               'kinds': b['kinds'][1], 'dlens': [1, 2]}
        # IOAPI files split along TSTEP and stacked again (time flags must come back, too)
        from .. import ioapi_u
        th = tier == 'thorough'
        for start in range(6 if th else 3):
            for nt in ((2, 3, 4, 5) if th else (2, 3, 4)):
                for kind, masked in (('grid', False), ('grid', True), ('bdy', False)) + (
                        (('disk', False),) if th else ()):
                    yield {'kind': 'ioapi', 'rec': ioapi_u.recipe(nt=nt, nl=2, nr=2, nc=2, nv=2, start=start,
                                                                  kind=kind, masked=masked)}

    def expand(self, group):
        if group['kind'] == 'ioapi':
            for comp in rops.compositions(group['rec']['nt']):
                if len(comp) > 1:
                    yield {'kind': 'ioapi', 'rec': group['rec'], 'pieces': [list(p) for p in comp], 'dim': 'TSTEP',
                           'form': 'method'}
            return
        if group['kind'] == 'split':
            n = group['file']['lens'][group['dim']]
            for comp in rops.compositions(n):
                for splitter in ('ref', 'lib'):
                    # (method-iter / method-tuple: the other files handed over as a one-shot iterator / a tuple)
                    forms = ['method'] if splitter == 'lib' else ['method', 'stack_files', 'pncmfopen',
                                                                   'method-disk', 'method-iter', 'method-tuple',
                                                                   'open_mfdataset']
                    if splitter == 'ref' and (group['dim'] == 't' or
                                              (group['file']['unl'] and group['dim'] == 't')):
                        # (the universe files' unlimited dimension, when they have one, is t)
                        forms.append('open_mfdataset-auto')
                    for form in forms:
                        yield {'kind': 'split', 'file': group['file'], 'dim': group['dim'],
                               'pieces': [list(p) for p in comp], 'splitter': splitter, 'form': form}
        elif group['kind'] == 'seq':
            for f1 in ('method', 'stack_files', 'pncmfopen'):
                for form in ('method', 'stack_files', 'pncmfopen'):
                    yield dict(group, first_form=f1, form=form)
        elif group.get('repeat'):
            for form in ('method', 'stack_files', 'pncmfopen'):
                yield dict(group, form=form)
        else:
            dl = group['dlens']
            for k in range(2, len(dl) + 1):
                for form in ('method', 'stack_files', 'method-iter'):
                    yield dict(group, dlens=dl[:k], form=form)
            # same lengths, reversed offsets: argument order must be visible
            yield dict(group, dlens=dl[:2], form='method', reverse=True)

    # ------------------------------------------------------------------
    def _call(self, fn, lst, *a, **k):
        """call fn(lst, ...) and record whether the list the caller handed over was changed"""
        before = list(lst)
        out = fn(lst, *a, **k)
        if len(lst) != len(before) or any(x is not y for x, y in zip(lst, before)):
            self._argmod = 'the list of %d items handed to %s has %d items afterwards' % (
                len(before), getattr(fn, '__name__', 'stack'), len(lst))
        return out

    def _stack(self, form, reals, d):
        P = lib.pnc()
        if form == 'method':
            return self._call(reals[0].stack, reals[1:], d)
        if form == 'method-iter':
            return reals[0].stack(iter(reals[1:]), d) if len(reals) > 2 else reals[0].stack((r for r in reals[1:]), d)
        if form == 'method-tuple':
            return reals[0].stack(tuple(reals[1:]), d)
        if form == 'method-disk':
            # the pieces are netCDF-backed files; the receiver is an in-memory copy of the first
            disk = []
            for i, r in enumerate(reals):
                p = os.path.join(self.tmp, 'd%d_%d.nc' % (os.getpid(), i))
                if os.path.exists(p):
                    os.unlink(p)
                r.save(p, format='NETCDF4_CLASSIC', verbose=0).close()
                disk.append(P.pncopen(p, format='netcdf'))
            self._open = disk
            return self._call(disk[0].stack, disk[1:], d)
        if form == 'stack_files':
            from PseudoNetCDF.core._functions import stack_files
            return self._call(stack_files, list(reals), d)
        if form in ('pncmfopen', 'open_mfdataset', 'open_mfdataset-auto'):
            paths = []
            saved = {}
            for i, r in enumerate(reals):
                if id(r) in saved:
                    paths.append(saved[id(r)])     # the same file listed again
                    continue
                # argument order deliberately differs from lexicographic order
                p = os.path.join(self.tmp, 'p%d_%d.nc' % (os.getpid(), 9 - i))
                if os.path.exists(p):
                    os.unlink(p)
                r.save(p, format='NETCDF4_CLASSIC', verbose=0).close()
                paths.append(p)
                saved[id(r)] = p
            if form == 'open_mfdataset':
                # the class-level entry point of the netCDF reader, stacking dimension named
                from PseudoNetCDF.core._files import netcdf
                return netcdf.open_mfdataset(*paths, stackdim=d)
            if form == 'open_mfdataset-auto':
                # ... and left to be found: the unlimited dimension, else the one called 't'
                from PseudoNetCDF.core._files import netcdf
                return netcdf.open_mfdataset(*paths)
            return self._call(P.pncmfopen, paths, stackdim=d, format='netcdf')
        raise ValueError(form)

    def run_ioapi(self, case):
        from .. import ioapi_u
        real = ioapi_u.build(case['rec'], self.tmp)
        rf = lib.snap(real)
        vs = []
        sig = ('ioapi-split', 'method')
        scope = dict(form='method', splitter='lib', npieces=len(case['pieces']), dim='TSTEP',
                     ioapi_kind=case['rec']['kind'], start=case['rec']['start'])
        states = [rfile.canon(rf)]
        try:
            parts = [real.sliceDimensions(TSTEP=slice(a, b)) for a, b in case['pieces']]
            states += [rfile.canon(lib.snap(p_)) for p_ in parts]
            got = parts[0].stack(parts[1:], 'TSTEP')
        except Exception as e:
            vs.append(viol('in-domain-raises', sig, '%s: %r' % (type(e).__name__, e), exc=type(e).__name__,
                           **scope))
            return result('viol', vs, states, len(case['pieces']))
        wf = lib.wellformed(got)
        if wf:
            vs.append(viol('not-wellformed', sig, '; '.join(wf), **scope))
        snap = lib.snap(got)
        diffs = rfile.file_diff(snap, rf, attrs=True, gattrs=False, order=False, dtype=True)
        if diffs:
            what = 'time-flags-differ' if any('TFLAG' in x for x in diffs) else 'stack-differs'
            vs.append(viol(what, sig, '; '.join(diffs)[:1500], **scope))
        for a in ('SDATE', 'STIME', 'TSTEP', 'NVARS', 'NLAYS', 'NROWS', 'NCOLS', 'XORIG', 'YORIG'):
            if not rfile.attr_equal(snap.attrs.get(a), rf.attrs.get(a)):
                vs.append(viol('ioapi-attribute-differs', sig, '%s=%r, original %r' % (
                    a, snap.attrs.get(a), rf.attrs.get(a)), attr=a, **scope))
        nt = h64('ioapi', sorted(case['rec'].items(), key=str), case['pieces'])
        return result('viol' if vs else 'ok', vs, states, len(case['pieces']) + 1, nt,
                      rfile.canon(snap) if not vs else None)

    def run_one(self, case):
        if case['kind'] == 'ioapi':
            return self.run_ioapi(case)
        self._open = []
        d = case['dim']
        form = case['form']
        disk_forms = ('pncmfopen', 'method-disk', 'open_mfdataset', 'open_mfdataset-auto')
        if form in disk_forms or case.get('first_form') in disk_forms:
            # classic netCDF files cannot hold multi-character strings, nor a valid cell equal to the fill
            # value (it reads back as missing): those variables stay in memory only
            case = dict(case)
            if 'file' in case:
                case['file'] = dict(case['file'], kinds=[k for k in case['file']['kinds'] if k not in ('Sw', 'Mn')])
            if 'kinds' in case:
                case['kinds'] = [k for k in case['kinds'] if k not in ('Sw', 'Mn')]
        vs = []
        if case['kind'] == 'split':
            real = lib.to_real(rfile.ufile(case['file']))
            rf = lib.snap(real, cls='PseudoNetCDFFile')
            before = rfile.canon(rf)
            pieces_r, reals = [], []
            for a, b in case['pieces']:
                pr = rops.rslice(rf, OrderedDict([(d, ('s', a, b, None))]))
                pieces_r.append(pr)
                if case['splitter'] == 'ref':
                    reals.append(lib.to_real(pr))
                else:
                    reals.append(real.sliceDimensions(**{d: slice(a, b)}))
            exp = rf
            sig = ('split-' + case['splitter'], form)
            scope = dict(form=form, splitter=case['splitter'], npieces=len(case['pieces']), dim=d)
        else:
            if case['kind'] == 'seq':
                # an earlier, unrelated stacking in the same process
                b1 = {'lens': {'t': 2, 'z': 2, 'x': 2}, 'unl': case['first_unl'], 'kinds': case['kinds']}
                d1 = case['first_dim']
                firsts = [lib.to_real(offset_file(rfile.ufile(dict(b1, lens=dict(b1['lens'], **{d1: n}))),
                                                  1000 * i, d1)) for i, n in enumerate((1, 2))]
                try:
                    g1 = self._stack(case['first_form'], firsts, d1)
                    if hasattr(g1, 'close') and case['first_form'] == 'pncmfopen':
                        g1.close()
                except Exception:
                    pass
            base = {'lens': {'t': 2, 'z': 2, 'x': 2}, 'unl': case['unl'], 'kinds': case['kinds']}
            rfs = []
            offs = list(range(len(case['dlens'])))
            if case.get('reverse'):
                offs = offs[::-1]
            for i, n in enumerate(case['dlens']):
                rec = dict(base, lens=dict(base['lens'], **{d: n}))
                rfs.append(offset_file(rfile.ufile(rec), 100000 * offs[i], d))
            reals = [lib.to_real(r) for r in rfs]
            if case.get('repeat'):
                # (a, b, a): the very same object / path again
                reals[2] = reals[0]
            pieces_r = [lib.snap(r, cls='PseudoNetCDFFile') for r in reals]
            before = h64(*[rfile.canon(p) for p in pieces_r])
            exp = rops.rstack(pieces_r, d)
            sig = ('multi' if case['kind'] == 'multi' else 'after-earlier-stack', form)
            if case.get('repeat'):
                sig = ('repeated-file', form)
            scope = dict(form=form, splitter='none', npieces=len(reals), dim=d)
        states = [before] + [rfile.canon(p) for p in pieces_r]
        try:
            self._argmod = None
            got = self._stack(form, reals, d)
        except Exception as e:
            vs.append(viol('in-domain-raises', sig, '%s: %r' % (type(e).__name__, e),
                           exc=type(e).__name__, **scope))
            return result('viol', vs, states, len(reals))
        if self._argmod:
            vs.append(viol('argument-modified', sig, self._argmod, **scope))
        wf = lib.wellformed(got)
        if wf:
            vs.append(viol('not-wellformed', sig, '; '.join(wf), **scope))
        snap = lib.snap(got, cls='PseudoNetCDFFile')
        disk = form in ('pncmfopen', 'method-disk', 'open_mfdataset', 'open_mfdataset-auto')
        diffs = rfile.file_diff(snap, exp, attrs=not disk, gattrs=not disk, order=not disk,
                                dtype=True)
        if diffs:
            what = 'stack-differs'
            if all('attribute' in x for x in diffs):
                what = 'attributes-differ'
            elif all(x.startswith('dimensions') for x in diffs):
                what = 'dimensions-differ'
            vs.append(viol(what, sig, '; '.join(diffs)[:1500], **scope))
        ntrans = len(reals) + 1
        # slicing the stacked file at a piece's extent reproduces the piece
        if not vs and form == 'method':
            pos = 0
            for pr in pieces_r:
                n = pr.dims[d][0]
                try:
                    back = lib.snap(got.sliceDimensions(**{d: slice(pos, pos + n)}),
                                    cls='PseudoNetCDFFile')
                    dd = rfile.file_diff(back, pr if case['kind'] == 'split' else
                                         _expect_piece(exp, d, pos, n))
                    ntrans += 1
                except Exception as e:
                    dd = ['slicing the stacked file raised %r' % e]
                if dd:
                    vs.append(viol('slice-of-stack-differs', sig, '; '.join(dd)[:1200], **scope))
                    break
                pos += n
        if hasattr(got, 'close') and form == 'pncmfopen':
            try:
                got.close()
            except Exception:
                pass
        for o in self._open:
            try:
                o.close()
            except Exception:
                pass
        nt = h64(before, d, case.get('pieces', case.get('dlens')), form, case.get('splitter')) \
            if len(reals) > 1 else None
        states.append(rfile.canon(exp))
        return result('viol' if vs else 'ok', vs, states, ntrans, nt,
                      rfile.canon(snap) if not vs else None)


def _expect_piece(exp, d, pos, n):
    return rops.rslice(exp, OrderedDict([(d, ('s', pos, pos + n, None))]))
