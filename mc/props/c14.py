"""C14 - truncated binary files are never silently misread (Engine D: every byte prefix)."""
import os
import gc
import signal
import struct

import numpy as np

from ..engine import core
from ..engine.core import viol, result, h64
from ..ref import camx_u, rfortran as rf
from .. import camx_lib as cl
from . import c09

FORMATS = ('uamiv', 'lateral_boundary', 'temperature', 'wind', 'humidity', 'vertical_diffusivity', 'one3d',
           'height_pressure', 'cloud_rain')
HEADERLESS = ('temperature', 'wind', 'humidity', 'vertical_diffusivity', 'one3d', 'height_pressure')
CHUNK = 384


def file_descs(tier):
    out = []
    for fmt in FORMATS:
        base = camx_u.base_desc(fmt)
        if fmt in camx_u.MET:
            base['spc'] = 0
        variants = [dict(base), dict(base, nsteps=3, shape=[2, 2, 2]), dict(base, nsteps=1, shape=[2, 3, 1]),
                    dict(base, nsteps=3, shape=[2, 1, 3], start=2)]
        if fmt in ('uamiv', 'lateral_boundary'):
            variants.append(dict(base, spc=2, nsteps=2, shape=[2, 2, 1]))
            # steps across midnight with hour-24 end stamps (end flag differs from the next begin flag)
            variants.append(dict(base, nsteps=3, start=6, end24=True, shape=[2, 2, 1]))
        if tier == 'thorough':
            for sh in ([1, 1, 1], [3, 3, 2], [1, 2, 3], [3, 1, 1], [2, 2, 3], [4, 4, 2]):
                for n in (1, 2, 3, 4):
                    variants.append(dict(base, nsteps=n, shape=sh, start=(n + sh[0]) % len(camx_u.STARTS)))
            if fmt == 'uamiv':
                for nm in (1, 2, 3):
                    variants.append(dict(base, name=nm, nsteps=2))
                variants.append(dict(base, name=1, shape=[3, 2, 1], nsteps=2, hdr_nz0=True))
            if fmt == 'wind':
                variants.append(dict(base, hdr8=True, nsteps=3))
            if fmt == 'cloud_rain':
                variants.append(dict(base, crv3=True, nsteps=3))
                variants.append(dict(base, crv3=True, nsteps=2, shape=[2, 2, 1]))
        if fmt in HEADERLESS:
            # half-hourly stamps from midnight (HHMM 0, 30, 100): the first steps lie within the first hour
            variants.append(dict(base, nsteps=3, start=1, subhourly=True, shape=[2, 2, 1]))
        if fmt == 'cloud_rain':
            variants.append(dict(base, crv3=True, nsteps=2))
        seen = set()
        for v in variants:
            k = repr(sorted(v.items(), key=str))
            if k not in seen:
                seen.add(k)
                out.append(v)
    return out


def structure(raw, r):
    """byte offsets: record starts/ends and the end offset of every complete time step"""
    pos = 0
    recs = []
    while pos < len(raw):
        n = struct.unpack('>i', raw[pos:pos + 4])[0]
        recs.append((pos, pos + 8 + n))
        pos += 8 + n
    fmt = r['fmt']
    n = len(r['steps'])
    hdr = {'uamiv': 4, 'lateral_boundary': 8, 'cloud_rain': 1}.get(fmt, 0)
    per = (len(recs) - hdr) // n
    # a step is complete when its last DATA record is complete (the wind format
    # appends a 4-byte dummy record that carries no data)
    last = 2 if fmt == 'wind' else 1
    step_ends = [recs[hdr + per * (t + 1) - last][1] for t in range(n)]
    hdr_end = recs[hdr - 1][1] if hdr else 0
    return recs, step_ends, hdr_end


def cut_class(cut, recs, step_ends, hdr_end):
    if cut < hdr_end:
        return 'header'
    if cut in step_ends or cut == hdr_end:
        return 'step-boundary'
    for a, b in recs:
        if cut == a:
            return 'record-boundary'
        if a < cut < b:
            if cut - a < 4 or b - cut < 4 or cut - a == 4 or b - cut == 4:
                return 'marker'
            return 'mid-record'
    return 'other'


class Prop(c09.Prop):
    ID = 'C14'
    LEVEL = 'fault_enumeration'
    ENGINE = 'D'
    HORIZON = 120.0
    RULE = ('for each generated file of the binary universe (8 formats x 4-5 (quick) / ~30 (thorough) '
            'shape/step/start variants) EVERY proper byte prefix is materialised and opened with the format\'s '
            'memory-mapped reader, and every variable and TFLAG is fully read; a case is one prefix; non-trivial = '
            'the prefix is neither empty nor the full file (all cases); distinct = distinct (file, cut offset)')
    ASSUMPTIONS = [
        'accepted outcomes for a prefix: an exception, or a file whose dimensions other than TSTEP equal the full '
        'file\'s, whose step count s does not exceed the number of steps completely contained in the prefix, and '
        'whose first s steps of every variable and of TFLAG/ETFLAG are bit-identical to the full file\'s',
        'cloud/rain files carry no variable count (3 before CAMx 4.3, 5 since): a prefix that the reference decoder '
        'reads, with no byte left over, as a complete file of the other flavour may be presented as exactly that file',
        'each prefix read runs under a 0.5 s alarm (a normal read takes ~1 ms) and is repeated under a 10 s alarm '
        'if it misses it; only a read that misses both is reported as no-termination',
    ]

    def bounds(self, tier):
        ds = file_descs(tier)
        return {'files': len(ds), 'formats': FORMATS + ('landuse', 'bpch'), 'chunk': CHUNK,
                'bpch_files': len(self.bpch_cases(tier)),
                'landuse_files': len([d for d in camx_u.landuse_descs(tier) if d['payload'] == 'ramp' and
                                      tuple(d['shape']) in ((3, 2), (1, 1), (2, 2))])}

    def groups(self, tier):
        for d in file_descs(tier):
            r = camx_u.materialize(d)
            size = len(camx_u.encode(r))
            for a in range(0, size, CHUNK):
                yield {'desc': d, 'lo': a, 'hi': min(size, a + CHUNK)}
                if d['fmt'] in ('uamiv', 'lateral_boundary') and d.get('nsteps', 0) >= 2:
                    # the documented update mode: numpy.memmap may EXTEND a short file
                    yield {'desc': d, 'lo': a, 'hi': min(size, a + CHUNK), 'mode': 'r+'}
        # GEOS-Chem binary punch files (recipes of C18): averaged and instantaneous output
        for bc in self.bpch_cases(tier):
            size = len(self.bpch_bytes(bc)[0])
            for a in range(0, size, CHUNK):
                yield {'desc': {'fmt': 'bpch', 'case': bc}, 'lo': a, 'hi': min(size, a + CHUNK)}
        for d in camx_u.landuse_descs(tier):
            if d['payload'] != 'ramp' or tuple(d['shape']) not in ((3, 2), (1, 1), (2, 2)):
                continue
            size = len(rf.enc_landuse(camx_u.materialize_landuse(d)))
            for a in range(0, size, CHUNK):
                yield {'desc': d, 'lo': a, 'hi': min(size, a + CHUNK)}

    def expand(self, group):
        yield group

    def bpch_cases(self, tier):
        out = [{'nt': 3, 'ncat': 1, 'ntr': 2, 'layers': '2+1', 'start': [1, 1, 1], 'tables': 'complete'},
               {'nt': 2, 'ncat': 1, 'ntr': 1, 'layers': '1', 'start': [1, 1, 1], 'tables': 'complete',
                'instant': True}]
        if tier == 'thorough':
            out += [{'nt': 3, 'ncat': 2, 'ntr': 1, 'layers': '1', 'start': [2, 3, 2], 'tables': 'complete',
                     'instant': True},
                    {'nt': 2, 'ncat': 2, 'ntr': 2, 'layers': '2+3', 'start': [1, 1, 1], 'tables': 'complete', 'dt': 3}]
        return out

    def bpch_bytes(self, bc):
        from . import c18
        if not hasattr(self, '_c18'):
            self._c18 = c18.Prop()
        r, vars_ = self._c18.recipe(bc)
        return rf.enc_bpch(r), r, vars_

    def run_bpch(self, g):
        # the memory-mapped reader, the master class (falls back to the block-walking reader) and the
        # block-walking reader itself
        ENTRIES = ('bpch1', 'bpch', 'bpch2')
        """every prefix of a binary punch file: an exception, or complete time blocks only, equal to the full file's"""
        import shutil
        from . import c18
        P = core.load_lib()
        bc = g['desc']['case']
        raw, r, vars_ = self.bpch_bytes(bc)
        d = os.path.join(self.tmp, 'bp_%d' % os.getpid())
        shutil.rmtree(d, True)
        os.makedirs(d)
        with open(os.path.join(d, 'tracerinfo.dat'), 'w') as fh:
            fh.write('# reference tracerinfo\n')
            for off in (0, 1000):
                for num, name, scale, unit in c18.TRACERS[off]:
                    fh.write(rf.tracerinfo_line(name, name + ' tracer', 2.8e-2, 1, num, scale, unit) + '\n')
        with open(os.path.join(d, 'diaginfo.dat'), 'w') as fh:
            fh.write('# reference diaginfo\n')
            for cat, off in c18.CATS:
                fh.write(rf.diaginfo_line(off, cat, 'category ' + cat) + '\n')
        p = os.path.join(d, 'cut.bpch')

        def read(path, entry='bpch1'):
            with c18.quiet():
                f = P.pncopen(path, format=entry, noscale=True)
            out = {}
            timed = set()
            for k in f.variables.keys():
                try:
                    out[k] = np.array(np.asarray(f.variables[k][...]))
                    if tuple(f.variables[k].dimensions)[:1] == ('time',):
                        timed.add(k)
                except Exception:
                    out[k] = None
            out['__timed__'] = timed
            nt_ = len(f.dimensions['time']) if 'time' in f.dimensions else None
            del f
            return nt_, out
        with open(p, 'wb') as fh:
            fh.write(raw)
        scope0 = dict(fmt='bpch', mode='r', shape=bc['layers'], nsteps=bc['nt'], instant=bool(bc.get('instant')))
        full = {}
        try:
            # the memory-mapped reader itself, and the master class (which falls back to the block-walking reader
            # whenever the memory-mapped one raises)
            for entry in ENTRIES:
                full[entry] = read(p, entry)
        except Exception as e:
            return result('full-file-unreadable', [], [h64(raw)], 1, None, h64(type(e).__name__))
        vs, outcomes, ntrans = [], {}, 0
        for cut, entry in [(c, e) for c in range(g['hi'] - 1, g['lo'] - 1, -1) for e in ENTRIES]:
            fnt, fdata = full[entry]
            # variables along the time dimension (by name, not by a coincidence of lengths)
            keys = [k for k in sorted(fdata['__timed__']) if fdata[k] is not None]
            if entry == 'bpch2':
                pass      # compared with the full file read by the same reader: every time variable counts
            elif entry == 'bpch':
                # the fall-back reader defines `time` as the begin of the block, the memory-mapped one as its mid
                # point (DESIGN 7.4); both carry the block bounds tau0/tau1, which are compared
                keys = [k for k in keys if k not in ('time', 'time_bounds')]
            scope0['entry'] = entry
            with open(p, 'wb') as fh:
                fh.write(raw[:cut])
            ntrans += 1
            signal.setitimer(signal.ITIMER_REAL, 5.0)
            try:
                nt_, data = read(p, entry)
                signal.setitimer(signal.ITIMER_REAL, self.HORIZON)
            except core.Timeout:
                signal.setitimer(signal.ITIMER_REAL, self.HORIZON)
                outcomes['hang'] = outcomes.get('hang', 0) + 1
                vs.append(viol('no-termination', ('truncated', 'bpch', 'any'), 'prefix of %d/%d bytes: reader did not '
                               'return within 5 s' % (cut, len(raw)), cutclass='any', **scope0))
                continue
            except Exception:
                signal.setitimer(signal.ITIMER_REAL, self.HORIZON)
                outcomes['raised'] = outcomes.get('raised', 0) + 1
                gc.collect()
                continue
            gc.collect()
            problem = None
            if nt_ is None or nt_ > fnt:
                problem = ('steps-fabricated', 'time=%r, full file has %d' % (nt_, fnt))
            else:
                for k in keys:
                    got = data.get(k)
                    if got is None:
                        continue
                    want = fdata[k][:nt_]
                    if got.shape[1:] == want.shape[1:] and got.shape[0] < nt_ and k not in data['__timed__']:
                        if entry == 'bpch2':
                            # the block-walking reader is made for irregular files: a tracer with fewer complete
                            # blocks gets a time dimension of its own; its blocks must still be the file's
                            want = fdata[k][:got.shape[0]]
                        else:
                            # a tracer kept on a shorter time dimension of its own: the last step shown is incomplete
                            problem = ('incomplete-step-exposed', '%s has %d of the %d time blocks shown'
                                       % (k, got.shape[0], nt_))
                            break
                    # (values, not bytes: the fall-back reader presents the same numbers in native byte order)
                    if got.shape != want.shape or not np.array_equal(got, want, equal_nan=got.dtype.kind == 'f'):
                        what = 'time-flags-differ' if k in ('tau0', 'tau1', 'time', 'time_bounds') else 'values-differ'
                        problem = (what, '%s: shape %r vs %r; %s vs %s' % (k, got.shape, want.shape, got.ravel()[:4],
                                                                        want.ravel()[:4]))
                        break
            if problem:
                outcomes['misread'] = outcomes.get('misread', 0) + 1
                vs.append(viol(problem[0], ('truncated', 'bpch', 'any'), 'prefix of %d/%d bytes opened silently with '
                               '%r time blocks: %s' % (cut, len(raw), nt_, problem[1]), cutclass='any', exposed=nt_,
                               **scope0))
            else:
                key = 'prefix-ok-%d-steps' % nt_
                outcomes[key] = outcomes.get(key, 0) + 1
        fid = h64('c14', sorted(bc.items(), key=str))
        res = result('viol' if vs else 'ok', vs, [h64(raw)] + [h64(fid, c) for c in range(g['lo'], g['hi'])],
                     ntrans, [h64(fid, c) for c in range(max(g['lo'], 1), g['hi'])],
                     h64(repr(sorted(outcomes.items()))))
        res['n'] = ntrans
        res['outcomes'] = outcomes
        return res

    def run_landuse(self, g):
        d = g['desc']
        r = camx_u.materialize_landuse(d)
        raw = rf.enc_landuse(r)
        p = self.path('cut')
        scope0 = dict(fmt='landuse', mode='r', shape='x'.join(str(x) for x in d['shape']), nsteps=0,
                      style=d['style'], others='+'.join(d['others']) or 'none')
        vs = []
        outcomes = {}
        ntrans = 0
        for cut in range(g['hi'] - 1, g['lo'] - 1, -1):
            with open(p, 'wb') as fh:
                fh.write(raw[:cut])
            ntrans += 1
            signal.setitimer(signal.ITIMER_REAL, 5.0)
            try:
                f = cl.open_lu(p, r)
                data = {k: np.array(np.asarray(f.variables[k][...])) for k in f.variables.keys()}
                nland = len(f.dimensions['LANDUSE'])
                del f
                signal.setitimer(signal.ITIMER_REAL, self.HORIZON)
            except core.Timeout:
                signal.setitimer(signal.ITIMER_REAL, self.HORIZON)
                outcomes['hang'] = outcomes.get('hang', 0) + 1
                vs.append(viol('no-termination', ('truncated', 'landuse', 'any'), 'prefix of %d/%d bytes: reader did '
                               'not return within 5 s' % (cut, len(raw)), cutclass='any', **scope0))
                continue
            except Exception:
                signal.setitimer(signal.ITIMER_REAL, self.HORIZON)
                outcomes['raised'] = outcomes.get('raised', 0) + 1
                gc.collect()
                continue
            gc.collect()
            # opened silently: fine only if the prefix is itself a complete land-use file and is shown as such
            ok = False
            try:
                alt = rf.dec_landuse(raw[:cut], r['ny'], r['nx'])
                exp = cl.lu_expected(alt)
                ok = nland == alt['nland'] and list(data) == [k for k, a in exp] and \
                    all(cl.bits_equal(data[k], a) for k, a in exp)
            except rf.LayoutError:
                ok = False
            if ok:
                outcomes['valid-shorter-file'] = outcomes.get('valid-shorter-file', 0) + 1
            else:
                outcomes['misread'] = outcomes.get('misread', 0) + 1
                vs.append(viol('incomplete-file-exposed', ('truncated', 'landuse', d['style']),
                               'prefix of %d/%d bytes opened silently with variables %r' % (cut, len(raw), list(data)),
                               cutclass='any', **scope0))
        fid = h64('c14', sorted(d.items(), key=str))
        res = result('viol' if vs else 'ok', vs, [h64(raw)] + [h64(fid, c) for c in range(g['lo'], g['hi'])],
                     ntrans, [h64(fid, c) for c in range(max(g['lo'], 1), g['hi'])],
                     h64(repr(sorted(outcomes.items()))))
        res['n'] = ntrans
        res['outcomes'] = outcomes
        return res

    def read_all(self, fmt, path, r, mode='r'):
        if mode == 'r':
            f = cl.open_mm(fmt, path, r)
        else:
            f = cl.open_mm(fmt, path, r, mode=mode)
        dims = {k: len(v) for k, v in f.dimensions.items()}
        data = {}
        for k in f.variables.keys():
            data[k] = np.array(np.asarray(f.variables[k][...]))
        del f
        return dims, data

    def other_version(self, prefix, dims, data):
        """cloud/rain files carry no variable count: a prefix of a five-variable file can be a complete
        three-variable file.  Accepted iff the reference decoder reads the prefix as such a file with no byte
        left over and the library presents exactly that file."""
        try:
            alt = rf.dec_cloud_rain(prefix)
        except rf.LayoutError:
            return False
        if not alt['times']:
            return False
        alt['fmt'] = 'cloud_rain'
        alt['steps'] = alt['times']
        n = len(alt['times'])
        if (dims.get('TSTEP'), dims.get('LAY'), dims.get('ROW'), dims.get('COL')) != (n, alt['nz'], alt['ny'], alt['nx']):
            return False
        names = cl.varnames(alt)
        if sorted(k for k in data if 'FLAG' not in k) != sorted(names):
            return False
        for nm in names:
            if not cl.bits_equal(data[nm], cl.expected_var(alt, nm)):
                return False
        plausible = all(0 <= hhmm <= 2400 and 1 <= idate % 1000 <= 366 and 0 <= idate < 100000
                        for hhmm, idate in alt['times'])
        if 'TFLAG' in data and plausible:
            # (when a grid has two cells a data record is as long as a time record and the decoded
            # stamps can be arbitrary bit patterns: no particular flags are demanded for those)
            want = []
            for hhmm, idate in alt['times']:
                yy, jjj = divmod(idate % 100000, 1000)
                want.append(((1900 + yy if yy >= 70 else 2000 + yy) * 1000 + jjj, int(round(hhmm)) * 100))
            got = [tuple(int(x) for x in row) for row in data['TFLAG'][:, 0, :]]
            if got != want:
                return False
        return True

    def run_one(self, g):
        d = g['desc']
        if d['fmt'] == 'landuse':
            return self.run_landuse(g)
        if d['fmt'] == 'bpch':
            return self.run_bpch(g)
        r = camx_u.materialize(d)
        fmt = d['fmt']
        raw = camx_u.encode(r)
        recs, step_ends, hdr_end = structure(raw, r)
        p = self.path('cut')
        with open(p, 'wb') as fh:
            fh.write(raw)
        mode = g.get('mode', 'r')
        try:
            fdims, fdata = self.read_all(fmt, p, r)
        except Exception as e:
            # the complete file itself is not readable (C09's business): nothing to compare prefixes with
            res = result('full-file-unreadable', [], [h64(raw)], 1, None, h64(type(e).__name__))
            return res
        gc.collect()
        scope0 = dict(fmt=fmt, mode=mode, shape='x'.join(str(x) for x in d['shape']), nsteps=d['nsteps'])
        agg_states = [h64(raw)]
        vs = []
        outcomes = {}
        ntrans = 0
        for cut in range(g['hi'] - 1, g['lo'] - 1, -1):
            with open(p, 'wb') as fh:
                fh.write(raw[:cut])
            cls = cut_class(cut, recs, step_ends, hdr_end)
            complete = sum(1 for e in step_ends if e <= cut)
            ntrans += 1
            signal.setitimer(signal.ITIMER_REAL, 0.5)
            try:
                try:
                    dims, data = self.read_all(fmt, p, r, mode)
                except core.Timeout:
                    # a loaded machine can make a 1 ms read miss the 0.5 s alarm: only a read that also
                    # misses a 10 s alarm is a hang (once one hang is confirmed in this chunk the short
                    # alarm alone decides, to keep a hanging reader from costing 10 s per cut)
                    if outcomes.get('hang'):
                        raise
                    with open(p, 'wb') as fh:
                        fh.write(raw[:cut])
                    signal.setitimer(signal.ITIMER_REAL, 10.0)
                    dims, data = self.read_all(fmt, p, r, mode)
                signal.setitimer(signal.ITIMER_REAL, self.HORIZON)
            except core.Timeout:
                signal.setitimer(signal.ITIMER_REAL, self.HORIZON)
                outcomes['hang'] = outcomes.get('hang', 0) + 1
                vs.append(viol('no-termination', ('truncated', fmt, cls), 'prefix of %d/%d bytes: reader did not '
                               'return within 10 s' % (cut, len(raw)), cutclass=cls, **scope0))
                continue
            except Exception as e:
                signal.setitimer(signal.ITIMER_REAL, self.HORIZON)
                outcomes['raised'] = outcomes.get('raised', 0) + 1
                gc.collect()
                continue
            gc.collect()
            problems = []
            s = dims.get('TSTEP', 0)
            if fmt in HEADERLESS and cut < step_ends[0] and cls in ('record-boundary', 'step-boundary') and s == 1:
                # these formats have no header: a cut on a record boundary inside the first step
                # IS a valid file with fewer layers; accept it iff it shows exactly those layers
                ok = True
                for k, full in fdata.items():
                    got = data.get(k)
                    if got is None or 'FLAG' in k:
                        continue
                    want = full[:1]
                    if got.ndim == want.ndim and got.ndim == 4:
                        want = want[:, :got.shape[1]]
                    if got.shape != want.shape or got.tobytes() != want.tobytes():
                        ok = False
                if ok:
                    outcomes['valid-shorter-file'] = outcomes.get('valid-shorter-file', 0) + 1
                    continue
            for k, v in fdims.items():
                if k != 'TSTEP' and dims.get(k) != v:
                    problems.append(('dimension-fabricated', '%s=%r, full file has %r' % (k, dims.get(k), v)))
            if s > complete:
                problems.append(('incomplete-step-exposed', '%d steps exposed, %d complete in the prefix' % (s, complete)))
            if not problems:
                for k, full in fdata.items():
                    if k not in data:
                        problems.append(('variable-missing', k))
                        continue
                    got = data[k]
                    want = full[:s]
                    if got.shape != want.shape or got.tobytes() != want.tobytes():
                        what = 'time-flags-differ' if 'FLAG' in k else 'values-differ'
                        problems.append((what, '%s: shape %r vs %r; %s vs %s' % (k, got.shape, want.shape,
                                                                                 got.ravel()[:4], want.ravel()[:4])))
                        break
            if problems and fmt == 'cloud_rain' and self.other_version(raw[:cut], dims, data):
                # the prefix is byte for byte a complete file of the older three-variable flavour
                outcomes['valid-other-version-file'] = outcomes.get('valid-other-version-file', 0) + 1
                continue
            if problems:
                outcomes['misread'] = outcomes.get('misread', 0) + 1
                c, det = problems[0]
                vs.append(viol(c, ('truncated', fmt, cls),
                               'prefix of %d/%d bytes (%s, %d complete steps) opened silently: %s'
                               % (cut, len(raw), cls, complete, det), cutclass=cls, complete=complete,
                               exposed=int(s), subhourly=bool(d.get('subhourly')),
                               stamps_below_one_hour=bool(d.get('subhourly')) and s >= 1 and
                               max(t for t, _ in r['times'][:s]) < 100, **scope0))
            else:
                key = 'prefix-ok-%d-steps' % s if s else 'prefix-ok-0-steps'
                outcomes[key] = outcomes.get(key, 0) + 1
        # one engine "case" aggregates a chunk of cuts: report each cut as an evaluation
        fid = h64('c14', sorted(d.items(), key=str), mode)
        res = result('viol' if vs else 'ok', vs, agg_states + [h64(fid, c) for c in range(g['lo'], g['hi'])],
                     ntrans, [h64(fid, c) for c in range(max(g['lo'], 1), g['hi'])],
                     h64(repr(sorted(outcomes.items()))))
        res['n'] = ntrans
        res['outcomes'] = outcomes
        return res
