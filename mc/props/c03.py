"""C03 - apply-along-dimension equals the numpy reduction along that axis (Engine A)."""
import itertools
from collections import OrderedDict

import numpy as np

from ..engine import core
from ..engine.core import viol, result, h64
from ..ref import rfile, rops
from .. import lib

FN = [('r', r) for r in rops.REDUCERS] + [('f', k) for k in rops.FUNCS]
STRRED = ['mean', 'sum', 'min', 'max', 'std', 'var', 'median']   # reduce_dim string form
CONV = [['valid', [.5, .5]], ['same', [.25, .5, .25]], ['full', [1., 1.]],
        # windows longer than the dimension (numpy swaps the operands: 'same' gives the window length)
        ['same', [.125, .25, .5, .25, .125]], ['valid', [.25, .25, .25, .25]]]
DICTFN = [('d', 'diff'), ('d', 'first')]   # documented dict form {'func1d': f}
# dict form WITH keyword options (each dimension its own): {'func1d': scale_shift, 'a': .., 'b': ..}
DICTKW = [('d', 'ss_2_1'), ('d', 'ss_m1_3'), ('d', 'head_1'), ('d', 'head_2')]
KWOPTS = {'ss_2_1': dict(a=2., b=1.), 'ss_m1_3': dict(a=-1., b=3.), 'head_1': dict(n=1), 'head_2': dict(n=2)}


def head(x, n):
    """the first n elements (the option is required and decides the length of the result)"""
    return x[:n]


def scale_shift(x, a, b):
    return x * a + b

COMMUTING = ('sum', 'min', 'max')


def fn_to_py(fn):
    if fn[0] == 'd' and fn[1] in KWOPTS:
        return dict(func1d=head if fn[1].startswith('head') else scale_shift, **KWOPTS[fn[1]])
    if fn[0] == 'd':
        return {'func1d': rops.FUNCS[fn[1]]}
    if fn[1] == 'scalar_mean':
        return lambda x: x.mean()
    return fn[1] if fn[0] == 'r' else rops.FUNCS[fn[1]]


def fn_class(fn):
    return fn[1] if fn[0] != 'c' else 'conv-' + fn[1]


def values_ok(obs, exp, in_dtype):
    """observed values equal the function's values; rounding into the
    variable's own floating type is allowed, loss of value otherwise is not"""
    if obs.shape != exp.shape:
        return False
    if rfile.values_identical(obs, exp):
        return True
    try:
        if np.array_equal(obs.astype('d'), exp.astype('d'), equal_nan=True):
            return True
    except Exception:
        pass
    if obs.dtype.kind == 'f' and obs.dtype == in_dtype and exp.dtype.kind == 'f':
        with np.errstate(all='ignore'):
            return bool(np.array_equal(obs, exp.astype(obs.dtype), equal_nan=True))
    return False


class Prop(core.Prop):
    ID = 'C03'
    ENGINE = 'A'
    RULE = ('every (file of U, non-empty dimension subset, function per dimension from 7 named '
            'reducers + 6 one-dimensional functions, keyword order) is executed once; non-trivial '
            'iff the reference result differs from the input; distinct = distinct '
            '(input canon, function assignment, expected canon)')
    ASSUMPTIONS = [
        'reference applies one numpy / numpy.ma primitive per axis (explicit lane loop for '
        'callables); the statement fixes no order of application so any order is accepted',
        'a result stored with loss of value (e.g. a float mean truncated into an integer variable) '
        'is a disagreement (DESIGN 4.1); rounding into the variable\'s own float type is not',
        'commutation law checked for sum/min/max only (exact on the small-integer data)',
    ]

    def bounds(self, tier):
        return {'t': [1, 2] if tier == 'quick' else [1, 2, 3], 'z': [1, 2], 'x': [1, 2, 3],
                'kinds': [['A', 'M', 'B', 'X', 'Zx', 'S', 'Mn', 'Kxx'], ['A', 'M', 'B', 'Zx', 'S']],
                'functions': [f[1] for f in FN],
                'triples': 'same function on all three (quick) / full product (thorough)'}

    def groups(self, tier):
        b = self.bounds(tier)
        for nt in b['t']:
            for nz in b['z']:
                for nx in b['x']:
                    for ki, kinds in enumerate(b['kinds']):
                        unl = (ki + nt + nx) % 2 == 0
                        frec = {'lens': {'t': nt, 'z': nz, 'x': nx}, 'unl': unl, 'kinds': kinds}
                        for r in (1, 2, 3):
                            for sub in itertools.combinations(['t', 'z', 'x'], r):
                                yield {'file': frec, 'dims': list(sub)}
        # IOAPI-class files (their own copyVariable / apply wrapper) with a float and an integer variable
        from .. import ioapi_u
        for start in (0, 2):
            for masked in (False, True):
                yield {'ioapi': ioapi_u.recipe(nt=2, nl=2, nr=2, nc=3, nv=2, start=start, masked=masked)}
            # records that are not evenly spaced in time (a day is missing): the time flags lack LAY/ROW/COL
            # and come back as they went in
            yield {'ioapi': dict(ioapi_u.recipe(nt=4, nl=2, nr=2, nc=2, nv=1, start=start), uneven_flags=True)}

    def expand(self, group):
        if 'ioapi' in group:
            for d in ('LAY', 'ROW', 'COL') + (() if group['ioapi'].get('uneven_flags') else ('TSTEP',)):
                for f in FN:
                    yield {'ioapi': group['ioapi'], 'funcs': [[d, list(f)]]}
            return
        dims = group['dims']
        if len(dims) == 3 and self.tier == 'quick':
            combos = [(f, f, f) for f in FN]
        else:
            combos = itertools.product(FN, repeat=len(dims))
        for combo in combos:
            fs = [[d, list(f)] for d, f in zip(dims, combo)]
            yield {'file': group['file'], 'funcs': fs}
            if len(fs) == 2:
                yield {'file': group['file'], 'funcs': fs[::-1]}
        if len(dims) == 2:
            # two dimensions in the dict form, each with its own keyword options
            for fa, fb in ((DICTKW[0], DICTKW[1]), (DICTKW[1], DICTKW[0]), (DICTKW[0], ('d', 'diff')),
                           (DICTKW[2], DICTKW[3]), (DICTKW[3], DICTKW[0])):
                fs = [[dims[0], list(fa)], [dims[1], list(fb)]]
                yield {'file': group['file'], 'funcs': fs}
                yield {'file': group['file'], 'funcs': fs[::-1]}
        if len(dims) == 1:
            for f in DICTKW:
                yield {'file': group['file'], 'funcs': [[dims[0], list(f)]]}
            for f in (('r', 'mean'), ('f', 'sub2'), ('f', 'first')):
                yield {'file': group['file'], 'funcs': [[dims[0], list(f)]], 'names': True}
            for f in DICTFN:
                yield {'file': group['file'], 'funcs': [[dims[0], list(f)]]}
            for r in STRRED:
                yield {'file': group['file'], 'funcs': [[dims[0], ['r', r]]], 'form': 'reduce_dim'}
            for mode, w in CONV:
                yield {'file': group['file'], 'funcs': [[dims[0], ['c', mode, w]]],
                       'form': 'convolve_dim'}
            if dims[0] == 'x':
                # fuzzy dimension matching of the string form: 'x' also names 'x7' (digits only), never 'x_2'
                for r in STRRED[:4]:
                    yield {'file': group['file'], 'funcs': [['x', ['r', r]]], 'form': 'reduce_dim', 'fuzzy': True}

    def run_ioapi(self, case):
        from .. import ioapi_u
        real = ioapi_u.build(case['ioapi'])
        v = real.createVariable('ICNT', 'i', ('TSTEP', 'LAY', 'ROW', 'COL'))
        v.units, v.long_name, v.var_desc = 'count'.ljust(16), 'ICNT'.ljust(16), 'ICNT'.ljust(80)
        v[...] = (np.arange(int(np.prod(v.shape))) * 3 + 1).reshape(v.shape)
        real.updatemeta()
        if case['ioapi'].get('uneven_flags'):
            from ..ref import rtime
            sd_, st_ = ioapi_u.STARTS[case['ioapi']['start']]
            allt = rtime.ioapi_times(sd_, st_, case['ioapi']['tstep'], 30)
            tf = real.variables['TFLAG']
            for i, k_ in enumerate((0, 1, 26, 27)[:tf.shape[0]]):
                d__, h__ = rtime.to_ioapi(allt[k_])
                tf[i, :, 0] = d__
                tf[i, :, 1] = h__
        tflag0 = np.array(real.variables['TFLAG'][...])
        full = lib.snap(real)
        # reference: the data variables only (time flags and IOAPI metadata are C10's business)
        rf = rfile.RFile()
        rf.cls = full.cls
        for d in ('TSTEP', 'LAY', 'ROW', 'COL'):
            rf.dims[d] = list(full.dims[d])
        for k, var in full.vars.items():
            if k not in ('TFLAG', 'ETFLAG'):
                rf.vars[k] = var
        (d_, f_), = [(d, tuple(f)) for d, f in case['funcs']]
        fcls = fn_class(f_)
        sig = ('ioapi.applyAlongDimensions', f_[0])
        states = [rfile.canon(rf)]
        vs = []
        try:
            exps = rops.rapply_orders(rf, OrderedDict([(d_, f_)]))
        except rops.OutOfDomain:
            return result('ood-raise', [], states)
        try:
            got = real.applyAlongDimensions(**{d_: fn_to_py(f_)})
        except Exception as e:
            vs.append(viol('in-domain-raises', sig, '%s: %r' % (type(e).__name__, e), funcs=fcls, ioapi=True))
            return result('viol', vs, states)
        snap = lib.snap(got)
        exp0 = exps[0]
        if d_ == 'TSTEP' and 'TFLAG' in got.variables.keys() and len(got.dimensions['TSTEP']) >= 1:
            # the time flags are metadata, not data: whatever the function, they are dates again afterwards -
            # the series that starts at SDATE/STIME and advances by TSTEP
            from ..ref import rtime
            tf1 = np.asarray(got.variables['TFLAG'][...])
            n1 = len(got.dimensions['TSTEP'])
            try:
                want_t = [rtime.to_ioapi(t_) for t_ in rtime.ioapi_times(int(got.SDATE), int(got.STIME),
                                                                       int(got.TSTEP), n1)]
                got_t = [(int(a_), int(b_)) for a_, b_ in tf1[:, 0, :]]
                okflags = got_t == [tuple(w_) for w_ in want_t] and float(tf1[0, 0, 0]) == int(tf1[0, 0, 0])
            except Exception:
                okflags, got_t, want_t = False, tf1[:, 0, :].tolist(), None
            if not okflags:
                vs.append(viol('time-flags-not-dates', sig + ('TFLAG',), 'after %s along TSTEP the flags are %s, '
                               'SDATE/STIME/TSTEP say %s' % (fcls, got_t[:3], want_t[:3] if want_t else None),
                               funcs=fcls, ioapi=True, varkind='tflag'))
        if d_ != 'TSTEP' and 'TFLAG' in got.variables.keys():
            tf1 = np.asarray(got.variables['TFLAG'][...])
            if tf1.shape != tflag0.shape or not np.array_equal(tf1, tflag0):
                vs.append(viol('untouched-variable-changed', sig + ('TFLAG',), 'TFLAG (no %s dimension) went from '
                               '%s to %s' % (d_, tflag0[:, 0].tolist(), tf1[:, 0].tolist()), funcs=fcls, ioapi=True,
                               varkind='tflag'))
        for k, ev in exp0.vars.items():
            if k not in snap.vars:
                vs.append(viol('variable-missing', sig, k, funcs=fcls, ioapi=True))
                continue
            gv = snap.vars[k]
            dd = rfile.var_diff(k, gv, ev, dtype=True, attrs=False, fill=False, dims=True)
            if dd:
                clause = 'dtype-differs' if any('dtype' in x for x in dd) else 'values-differ'
                vs.append(viol(clause, sig + (k,), '; '.join(dd)[:800], funcs=fcls, ioapi=True,
                               varkind='int' if k == 'ICNT' else 'float'))
        ec = rfile.canon(exp0)
        return result('viol' if vs else 'ok', vs, states + [ec], 1,
                      h64(states[0], case['funcs'], ec) if ec != states[0] else None,
                      rfile.canon(snap) if not vs else None)

    def add_fuzzy(self, real):
        """extra dimensions x7 (a fuzzy match of 'x') and x_2 (not one) with variables on them"""
        real.createDimension('x7', 2)
        real.createDimension('x_2', 2)
        p = real.createVariable('P7', 'd', ('x7', 'x'))
        p.units = 'm'
        p[...] = np.arange(2 * len(real.dimensions['x']), dtype='d').reshape(2, -1) * 1.5 + 1
        q = real.createVariable('Q2', 'd', ('x_2',))
        q.units = 'm'
        q[...] = [4., 9.]
        return real

    def run_one(self, case):
        if 'ioapi' in case:
            return self.run_ioapi(case)
        real = lib.to_real(rfile.ufile(case['file']))
        if case.get('fuzzy'):
            real = self.add_fuzzy(real)
        if case.get('names'):
            # station names (4-character strings) along a dimension of their own: never touched
            real.createDimension('site', 2)
            nv = real.createVariable('names', 'S4', ('site',))
            nv.units = 'id'
            nv[...] = np.array([b'KATL', b'KBOS'])
        rf = lib.snap(real, cls='PseudoNetCDFFile')
        before = rfile.canon(rf)
        dimfuncs = OrderedDict((d, tuple(f)) for d, f in case['funcs'])
        if case.get('fuzzy'):
            dimfuncs['x7'] = dimfuncs['x']
        fcls = '+'.join(sorted(fn_class(f) for f in dimfuncs.values()))
        kinds = '+'.join(sorted(set(f[0] for f in dimfuncs.values())))
        refuncs = OrderedDict((d, ('f', f[1]) if f[0] == 'd' else f) for d, f in dimfuncs.items())
        try:
            exps = rops.rapply_orders(rf, refuncs)
            indomain = True
        except rops.OutOfDomain:
            exps, indomain = None, False
        form = case.get('form', 'method')
        opname = {'method': 'applyAlongDimensions'}.get(form, form)
        states = [before]
        try:
            if form == 'method':
                kw = OrderedDict((d, fn_to_py(f)) for d, f in dimfuncs.items())
                got = real.applyAlongDimensions(**kw)
            elif form == 'reduce_dim':
                from PseudoNetCDF.core._functions import reduce_dim
                d_, f_ = list(dimfuncs.items())[0]
                got = reduce_dim(real, '%s,%s' % (d_, f_[1]))
            else:
                from PseudoNetCDF.core._functions import convolve_dim
                (d_, f_), = dimfuncs.items()
                got = convolve_dim(real, ','.join([d_, f_[1]] + [repr(w_) for w_ in f_[2]]))
            raised = None
        except Exception as e:
            got, raised = None, e
        vs = []
        if raised is not None:
            if indomain:
                vs.append(viol('in-domain-raises', (opname, kinds),
                               '%s: %r' % (type(raised).__name__, raised), funcs=fcls,
                               exc=type(raised).__name__))
                return result('viol', vs, states)
            return result('ood-raise', [], states)
        wf = lib.wellformed(got)
        if wf:
            vs.append(viol('not-wellformed', (opname, kinds), '; '.join(wf),
                           funcs=fcls))
        if not indomain:
            return result('ood-returned' if not vs else 'viol', vs, states)
        snap = lib.snap(got, cls=rf.cls)
        exp0 = exps[0]
        states.extend(rfile.canon(e) for e in exps)
        # dimensions and structure
        if form != 'method':
            # provenance string written by the functional forms (DESIGN 4.1)
            snap.attrs.pop('history', None)
        d0 = rfile.file_diff(snap, exp0, dtype=False, attrs=True)
        struct = [d for d in d0 if not (': data ' in d or ': mask ' in d)]
        if struct:
            vs.append(viol('structure-differs', (opname, kinds),
                           '; '.join(struct)[:1200], funcs=fcls))
        for k, ev in exp0.vars.items():
            if k not in snap.vars:
                continue
            ov = snap.vars[k]
            touched = any(d in dimfuncs for d in ev.dims)
            vkind = ('masked' if rf.vars[k].mask.any() else rf.vars[k].data.dtype.kind) + \
                ('-coord' if k in rf.coords else '')
            if not touched:
                if rfile.var_diff(k, ov, rf.vars[k]):
                    vs.append(viol('untouched-variable-changed', (opname, kinds),
                                   '; '.join(rfile.var_diff(k, ov, rf.vars[k])), funcs=fcls,
                                   varkind=vkind))
                continue
            ok = False
            why = ''
            for e in exps:
                evv = e.vars[k]
                if ov.data.shape != evv.data.shape:
                    why = 'shape %r != %r' % (ov.data.shape, evv.data.shape)
                    continue
                if not np.array_equal(ov.mask, evv.mask):
                    why = 'mask %s != expected %s' % (ov.mask.astype(int).tolist(),
                                                      evv.mask.astype(int).tolist())
                    continue
                keep = ~evv.mask
                if values_ok(ov.data[keep], evv.data[keep], rf.vars[k].data.dtype):
                    ok = True
                    break
                why = 'values %s != expected %s' % (rfile._short(ov.data[keep]),
                                                    rfile._short(evv.data[keep]))
            if not ok:
                clause = 'mask-differs' if why.startswith('mask') else 'values-differ'
                vs.append(viol(clause, (opname, kinds, vkind),
                               '%s: %s' % (k, why), funcs=fcls, varkind=vkind))
        # commuting reducers: result independent of the order dimensions are named
        if form == 'method' and len(dimfuncs) == 2 and all(f[0] == 'r' and f[1] in COMMUTING
                                                           for f in dimfuncs.values()):
            kw2 = OrderedDict(reversed(list(kw.items())))
            try:
                got2 = lib.snap(lib.to_real(rfile.ufile(case['file'])).applyAlongDimensions(**kw2),
                                cls=rf.cls)
                d2 = rfile.file_diff(got2, snap)
                if d2:
                    vs.append(viol('keyword-order-dependence', (opname, kinds),
                                   '; '.join(d2)[:800], funcs=fcls))
            except Exception as e:
                vs.append(viol('keyword-order-dependence', (opname, kinds),
                               'reversed order raised %r' % e, funcs=fcls))
        nt = None
        ec = rfile.canon(exp0)
        if ec != before:
            nt = h64(before, case['funcs'], ec)
        return result('viol' if vs else 'ok', vs, states, 1, nt,
                      rfile.canon(snap) if not vs else None)
