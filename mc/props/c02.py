"""C02 - dimension slicing selects exactly the requested hyperslab (Engine A).

Space: files of U x every non-empty subset of <=2 (quick) / <=3 (thorough)
dimensions x every combination of per-dimension selectors x keyword order.
Oracle: rops.rslice (per-axis orthogonal take / zipped pointwise selection).
"""
import itertools
import os
from collections import OrderedDict

import numpy as np

from ..engine import core
from ..engine.core import viol, result, h64
from ..ref import rfile, rops
from .. import lib


def selectors(n, tier):
    """selector alphabet for an axis of length n, simplest first"""
    out = []
    for k in list(range(0, n)) + list(range(-n, 0)):
        out.append(('i', k))
    out.append(('I', 0))          # numpy integer scalars (e.g. an argmax result)
    out.append(('I', -1))
    # one spelling of every distinct slice result + odd spellings
    seen = {}
    bounds = [None] + list(range(0, n + 2)) + list(range(-n - 1, 0))
    for step in (None, 2, -1, -2):
        for a in bounds:
            for b in bounds:
                r = tuple(range(n)[slice(a, b, step)])
                if r not in seen:
                    seen[r] = ('s', a, b, step)
    out.extend(seen.values())
    out.extend([('s', None, None, 5), ('s', -n - 3, n + 3, 1), ('s', n + 3, None, -1)])
    lists = [[], [0], [n - 1], [-1], [0, n - 1], [n - 1, 0], [0, 0], [-1, 0, 0]]
    if tier == 'thorough':
        lists += [[-n], [0, -1], [-1, -1], [n - 1, n - 1, 0]]
        if n >= 3:
            lists += [[1], [1, 0], [2, 1], [0, 1, 2], [2, 1, 0]]
    ded = []
    for l in lists:
        if l not in ded:
            ded.append(l)
    out.extend(('l', l) for l in ded)
    # out-of-domain probes
    out.append(('i', n))
    out.append(('l', [n]))
    return out


def sel_class(s):
    if s[0] in ('i', 'I'):
        return 'int' if s[1] >= 0 else 'negint'
    if s[0] == 's':
        return 'slice'
    return 'list'


class Prop(core.Prop):
    ID = 'C02'
    ENGINE = 'A'
    RULE = ('every (file of U, non-empty dimension subset, per-dimension selector '
            'combination, keyword order) is executed once; a case is non-trivial if the '
            'reference result differs from the input file; distinct = distinct '
            '(input canon, selection, expected-output canon)')
    ASSUMPTIONS = [
        'reference = numpy.take per axis (orthogonal) / explicit pointwise loop (zipped); '
        'numpy itself is trusted',
        'domain predicate of DESIGN 3.1: ints and list items in [-n,n), equal-length lists; '
        'outside it the library may raise or return any well-formed file',
        'container type (masked vs plain) is not compared; an all-False mask == no mask',
    ]

    def bounds(self, tier):
        return {'t': [1, 2] if tier == 'quick' else [1, 2, 3], 'z': [1, 2], 'x': [1, 2, 3],
                'kinds': [['A', 'M', 'B', 'X', 'Zx', 'S', 'M0', 'Mn', 'Sw'], ['A', 'M', 'B', 'Zx', 'S']],
                'ioapi': 'gridded ioapi_base files TSTEP<=4 x LAY,ROW,COL<=2; 1-2 selected dimensions',
                'max_dims_selected': 2 if tier == 'quick' else 3,
                'selectors_per_axis(n=3)': len(selectors(3, tier)),
                'keyword_orders': 'both for pairs',
                'zipped_plus_third_selector': 'two zipped lists x 8 selectors on the remaining dimension x 3 keyword orders',
                'slice_dim_string_form': 'start, stop in {None, -n-1..n+1} x step in {None, 1, 2, -1, -2}, and the one-number form'}

    def groups(self, tier):
        b = self.bounds(tier)
        for nt in b['t']:
            for nz in b['z']:
                for nx in b['x']:
                    for ki, kinds in enumerate(b['kinds']):
                        unl = (ki + nt + nx) % 2 == 0
                        frec = {'lens': {'t': nt, 'z': nz, 'x': nx}, 'unl': unl,
                                'kinds': kinds}
                        dims = ['t', 'z', 'x']
                        for r in range(1, b['max_dims_selected'] + 1):
                            for sub in itertools.combinations(dims, r):
                                yield {'file': frec, 'dims': list(sub)}
        # two zipped index lists together with a slice or an integer on the third dimension
        # (in the thorough tier this is part of the 3-dimension product)
        if b['max_dims_selected'] < 3:
            for unl in (False, True):
                frec = {'lens': {'t': 3, 'z': 2, 'x': 3}, 'unl': unl, 'kinds': b['kinds'][0]}
                for other in ('t', 'z', 'x'):
                    yield {'file': frec, 'zip3': other}
        # the functional string form slice_dim(f, 'dim,start[,stop[,step]]')
        for nt, nx in ((1, 1), (2, 3), (3, 4)):
            for unl in (False, True):
                frec = {'lens': {'t': nt, 'z': 2, 'x': nx}, 'unl': unl, 'kinds': b['kinds'][0]}
                for d in ('t', 'z', 'x'):
                    yield {'file': frec, 'slice_dim': d}
        from .. import ioapi_u
        idims = ['TSTEP', 'LAY', 'ROW', 'COL']
        for nt, nl, nr, nc, start in ((4, 2, 2, 2, 0), (1, 1, 1, 1, 1), (3, 2, 1, 2, 2)):
            rec = ioapi_u.recipe(nt=nt, nl=nl, nr=nr, nc=nc, nv=2, start=start)
            rec['longname'] = True
            for r in (1, 2):
                for sub in itertools.combinations(idims, r):
                    if tier == 'quick' and r == 2 and 'TSTEP' not in sub and nt != 4:
                        continue
                    yield {'ioapi': rec, 'dims': list(sub)}

    def expand(self, group):
        if 'ioapi' in group:
            rec = group['ioapi']
            n = {'TSTEP': rec['nt'], 'LAY': rec['nl'], 'ROW': rec['nr'], 'COL': rec['nc']}
            axes = [selectors(n[d], self.tier) for d in group['dims']]
            for combo in itertools.product(*axes):
                yield {'ioapi': rec, 'sel': [[d, list(s)] for d, s in zip(group['dims'], combo)]}
            return
        lens = group['file']['lens']
        if 'zip3' in group:
            o = group['zip3']
            zd = [d for d in ('t', 'z', 'x') if d != o]
            n0, n1 = lens[zd[0]], lens[zd[1]]
            lists = [([0, 1], [1, 0]), ([0, 0], [0, 1]), ([-1, 0], [0, -1]), ([1], [0]),
                     ([0, 1, 1], [1, 1, 0])]
            others = [('s', None, None, None), ('s', 1, None, None), ('s', None, None, -1), ('s', 0, 1, None),
                      ('s', None, None, 2), ('i', 0), ('i', -1), ('I', 1)]
            for la, lb in lists:
                if max(max(la), -min(la) - 1) >= n0 or max(max(lb), -min(lb) - 1) >= n1:
                    continue
                for osel in others:
                    if osel[0] in 'iI' and not -lens[o] <= osel[1] < lens[o]:
                        continue
                    sel = {o: list(osel), zd[0]: ['l', la], zd[1]: ['l', lb]}
                    for order in (('t', 'z', 'x'), ('x', 'z', 't'), (o, zd[1], zd[0])):
                        yield {'file': group['file'], 'sel': [[d, sel[d]] for d in order]}
            # the index lists handed over as numpy arrays (one array object for both dimensions when the lists are
            # equal): the caller's arrays are left alone and a second call with them gives the same answer
            for la, lb in lists + [([-1, 0], [-1, 0]), ([0, -1, -1], [0, -1, -1])]:
                if max(max(la), -min(la) - 1) >= n0 or max(max(lb), -min(lb) - 1) >= n1:
                    continue
                for osel in others[:2] + others[5:6]:
                    sel = {o: list(osel), zd[0]: ['l', la], zd[1]: ['l', lb]}
                    for order in (('t', 'z', 'x'), ('x', 'z', 't')):
                        yield {'file': group['file'], 'sel': [[d, sel[d]] for d in order], 'arrays': True}
            return
        if 'slice_dim' in group:
            n = lens[group['slice_dim']]
            rng = [None] + list(range(-n - 1, n + 2))
            for a in rng:
                if a is not None:
                    yield {'file': group['file'], 'slice_dim': group['slice_dim'], 'args': [a]}
                for b_ in rng:
                    for st in (None, 1, 2, -1, -2):
                        yield {'file': group['file'], 'slice_dim': group['slice_dim'], 'args': [a, b_, st]}
                        if st in (None, -1) and a in (None, 1) and b_ in (None, n):
                            # the same call on a netCDF4.Dataset (values read from disk, masks from _FillValue)
                            yield {'file': group['file'], 'slice_dim': group['slice_dim'], 'args': [a, b_, st],
                                   'nc': True}
                        if st in (None, 2) and a in (None, 1) and b_ in (None, n, 1):
                            yield {'file': group['file'], 'slice_dim': group['slice_dim'], 'args': [a, b_, st],
                                   'fuzzy': True}
            return
        axes = [selectors(lens[d], self.tier) for d in group['dims']]
        for combo in itertools.product(*axes):
            sel = [[d, list(s)] for d, s in zip(group['dims'], combo)]
            yield {'file': group['file'], 'sel': sel}
            if len(sel) == 2:
                yield {'file': group['file'], 'sel': sel[::-1]}

    def run_slice_dim(self, case):
        from PseudoNetCDF.core._functions import slice_dim
        real = lib.to_real(rfile.ufile(case['file']))
        d, args = case['slice_dim'], case['args']
        fuzzy = []
        if case.get('fuzzy'):
            # further dimensions whose names extend the sliced name: '<d>7' is a documented fuzzy match
            # (digits only) and is sliced as well; '<d>b' and '<d>_2' are different dimensions
            n = len(real.dimensions[d])
            for suffix, touched in (('7', True), ('b', False), ('_2', False)):
                real.createDimension(d + suffix, n)
                v = real.createVariable('V' + suffix.strip('_'), 'd', (d + suffix,))
                v.units = 'm'
                v[...] = np.arange(n) * 1.5 + len(suffix)
                if touched:
                    fuzzy.append(d + suffix)
        rf = lib.snap(real, cls='PseudoNetCDFFile')
        if len(args) == 1:
            a, b_, st = args[0], args[0] + 1, None      # documented: a single number is one index
        else:
            a, b_, st = args
        text = ','.join([d] + [repr(x) for x in (args if len(args) == 1 else (a, b_, st))])
        exp = rops.rslice(rf, OrderedDict([(d, ('s', a, b_, st))] + [(fd, ('s', a, b_, st)) for fd in fuzzy]))
        before = rfile.canon(rf)
        sig = ('slice_dim', 'neg-step' if (st or 1) < 0 else 'pos-step')
        scope = dict(selcls='slice_dim', step=st, one_arg=len(args) == 1)
        vs = []
        ncpath = None
        if case.get('nc'):
            import netCDF4, tempfile
            fd, ncpath = tempfile.mkstemp(suffix='.nc', prefix='c02_', dir=os.environ.get('VERIF_SCRATCH') or None)
            os.close(fd)
            real.save(ncpath, format='NETCDF4', verbose=0).close()
            real = netCDF4.Dataset(ncpath)
            self._tmp = (real, ncpath)
            # the reference is the slab of what the saved file holds (values and masks as read back)
            rf = lib.snap(real, cls='PseudoNetCDFFile')
            exp = rops.rslice(rf, OrderedDict([(d, ('s', a, b_, st))]))
            sig = ('slice_dim-netcdf',) + sig[1:]
        try:
            got = slice_dim(real, text)
        except Exception as e:
            vs.append(viol('in-domain-raises', sig, 'slice_dim(f, %r): %s: %r' % (text, type(e).__name__, e),
                           exc=type(e).__name__, **scope))
            return result('viol', vs, [before])
        wf = lib.wellformed(got)
        if wf:
            vs.append(viol('not-wellformed', sig, 'slice_dim(f, %r): %s' % (text, '; '.join(wf)), **scope))
            return result('viol', vs, [before])
        snap = lib.snap(got, cls=rf.cls)
        # the functional form appends to a history attribute: global attributes are not part of the hyperslab
        diffs = rfile.file_diff(snap, exp, order=False, gattrs=False, attrs=not case.get('nc'))
        if diffs:
            vs.append(viol('hyperslab-differs', sig, 'slice_dim(f, %r): %s' % (text, '; '.join(diffs)[:1200]),
                           **scope))
        ecanon = rfile.canon(exp)
        return result('viol' if vs else 'ok-slice_dim', vs, [before, ecanon], 1,
                      h64(before, text, ecanon) if ecanon != before else None,
                      rfile.canon(snap) if not vs else None)

    def run_one(self, case):
        if 'slice_dim' in case:
            self._tmp = None
            try:
                return self.run_slice_dim(case)
            finally:
                if self._tmp:
                    try:
                        self._tmp[0].close()
                    except Exception:
                        pass
                    os.unlink(self._tmp[1])
        isio = 'ioapi' in case
        if isio:
            from .. import ioapi_u
            real = ioapi_u.build(case['ioapi'])
        else:
            real = lib.to_real(rfile.ufile(case['file']))
        rf = lib.snap(real, cls='PseudoNetCDFFile')   # reference input := the real input as built
        sel = OrderedDict((d, tuple(s)) for d, s in case['sel'])
        classes = sorted(sel_class(s) for s in sel.values())
        sigcls = '+'.join(classes)
        opname = 'ioapi.sliceDimensions' if isio else 'sliceDimensions'
        try:
            exp = rops.rslice(rf, sel)
            indomain = True
            if isio and any(exp.dims[d][0] == 0 for d in sel):
                # IOAPI metadata (SDATE, VGLVLS, XORIG ...) is undefined for an
                # empty window: out of the wrapper's domain
                indomain = False
        except rops.OutOfDomain:
            exp, indomain = None, False
        before = rfile.canon(rf)
        kw = OrderedDict((d, rops.sel_to_py(s)) for d, s in sel.items())
        arrs = {}
        if case.get('arrays'):
            for d, s in sel.items():
                if s[0] == 'l':
                    key = tuple(s[1])
                    if key not in arrs:
                        arrs[key] = np.array(s[1], dtype='i8')
                    kw[d] = arrs[key]
        try:
            got = real.sliceDimensions(**kw)
            raised = None
        except Exception as e:
            got, raised = None, e
        vs = []
        states = [before]
        for key, a_ in arrs.items():
            if a_.tolist() != list(key):
                vs.append(viol('argument-modified', (opname, sigcls), 'the index array %r handed to sliceDimensions '
                               'is %r afterwards' % (list(key), a_.tolist()), selcls=sigcls))
        if vs:
            return result('viol', vs, states)
        if raised is not None:
            if indomain:
                nempty = sum(1 for s_ in sel.values() if s_[0] == 'l' and len(s_[1]) == 0)
                nlist = sum(1 for s_ in sel.values() if s_[0] == 'l')
                vs.append(viol('in-domain-raises', (opname, sigcls),
                               '%s: %r' % (type(raised).__name__, raised), selcls=sigcls,
                               empty_lists=bool(nlist >= 2 and nempty == nlist),
                               exc=type(raised).__name__))
                return result('viol', vs, states)
            return result('ood-raise', [], states)
        wf = lib.wellformed(got)
        if wf:
            vs.append(viol('not-wellformed', (opname, sigcls), '; '.join(wf),
                           selcls=sigcls))
        if not indomain:
            return result('ood-returned' if not vs else 'viol', vs, states)
        snap = lib.snap(got, cls=rf.cls)
        if isio:
            # IOAPI wrapper: geo/time attributes are re-derived (C11/C10); the
            # hyperslab of every variable incl. TFLAG and the dimensions are C02
            exp.dims.setdefault('DATE-TIME', [2, False])
            # the statement leaves open whether zipped dimensions survive when no
            # variable uses them any more (the IOAPI wrapper removes ROW and COL)
            for d_ in [d_ for d_, s_ in sel.items() if s_[0] == 'l']:
                if d_ not in snap.dims and d_ in exp.dims and \
                        not any(d_ in v_.dims for v_ in exp.vars.values()):
                    del exp.dims[d_]
            if snap.dims.get('VAR', [None])[0] != rf.dims['VAR'][0]:
                # zipped selection turned the data variables into non-IOAPI
                # variables: VAR/TFLAG are re-derived metadata (C10), not a hyperslab
                for o in (snap, exp):
                    o.dims.pop('VAR', None)
                    o.vars.pop('TFLAG', None)
            diffs = rfile.file_diff(snap, exp, order=False, gattrs=False, unlimited=False)
            diffs = [d_ for d_ in diffs if 'attribute' not in d_ or 'TFLAG' not in d_]
        else:
            diffs = rfile.file_diff(snap, exp, order=True)
        ecanon = rfile.canon(exp)
        states.append(ecanon)
        if diffs:
            kinds = sorted(set(d.split(':')[0] for d in diffs))
            what = 'hyperslab'
            if all(('attribute' in d) for d in diffs):
                what = 'attributes'
            elif all(d.startswith('dimensions') for d in diffs):
                what = 'dimension-lengths'
            vs.append(viol(what + '-differs', (opname, sigcls),
                           '; '.join(diffs)[:1500], selcls=sigcls))
        nt = h64(before, case['sel'], ecanon) if ecanon != before else None
        zipped = sum(1 for s in sel.values() if s[0] == 'l') >= 2
        oc = 'viol' if vs else ('ok-zipped' if zipped else 'ok')
        return result(oc, vs, states, 1, nt, rfile.canon(snap) if not vs else None)
