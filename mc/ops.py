"""State-derived operation menu over PseudoNetCDFFile objects and the function
that executes one operation descriptor on the real library (used by the
explicit-state searches of C01 and C05)."""
from collections import OrderedDict

import numpy as np

from .engine import core

NUM = 'fiu'


def _head(x, n):
    return x[:n]


def _structure(f):
    dims = OrderedDict((k, len(d)) for k, d in f.dimensions.items())
    vars_ = OrderedDict()
    for k in list(f.variables.keys()):
        v = f.variables[k]
        vars_[k] = (tuple(v.dimensions), np.dtype(v.dtype))
    return dims, vars_


def _numeric_along(vars_, d):
    return all(dt.kind in NUM for (vd, dt) in vars_.values() if d in vd)


def menu(f, with_queries=False, full=True):
    """Operation descriptors enabled in state f, simplest first.  'dom' says
    whether the instance lies in the documented domain (DESIGN 3.1)."""
    dims, vars_ = _structure(f)
    ops = []
    coords = set(f.getCoords()) if hasattr(f, 'getCoords') else set()
    # convention-bound files (IOAPI / CAMx readers): VAR and DATE-TIME are
    # metadata dimensions and TFLAG/ETFLAG metadata variables; operating on
    # them, or renaming/reordering convention dimensions, dismantles the
    # convention and is outside the documented domain
    conv = 'TFLAG' in vars_ and 'VAR' in dims and 'DATE-TIME' in dims
    META = ('VAR', 'DATE-TIME') if conv else ()
    isio = conv and any(c.__name__ == 'ioapi_base' for c in type(f).__mro__)
    # arithmetic on convention files is only meaningful when the time flags
    # are registered as coordinate variables (then they are passed through)
    flags_are_coords = all(k in coords for k in ('TFLAG', 'ETFLAG') if k in vars_)
    dn = [d for d in dims if d not in META]

    def twice(d):
        # (what stacking, re-ordering or an index list means for a variable that carries the dimension on two
        # axes - orthogonal or paired? - is not defined anywhere: outside the domain)
        return any(list(vd).count(d) > 1 for vd, dt in vars_.values())

    def add(op, dom=True, **kw):
        d = {'op': op, 'dom': bool(dom)}
        d.update(kw)
        ops.append(d)

    add('copy')
    if dn:
        d0, dl = dn[0], dn[-1]
        add('slice', dims[d0] >= 1, sel=[[d0, ['i', 0]]])
        add('slice', dims[dl] >= 1, sel=[[dl, ['i', -1]]])
        add('slice', not (conv and dims[d0] <= 1), sel=[[d0, ['s', 1, None, None]]])
        if conv:
            add('slice', False, sel=[['VAR', ['i', -1]]])     # out-of-domain probe
        add('slice', dims[dl] >= 1 and not twice(dl), sel=[[dl, ['l', [0, -1]]]])
        # the documented short names (f.slice / f.apply / f.subset) are the same operations
        add('slice', dims[dl] >= 1, sel=[[dl, ['s', -1, None, None]]], alias=True)
        # zipped selection over the first two dimensions some variable carries together
        pair = None
        for vk_, (vd, dt) in vars_.items():
            if len(vd) >= 2 and not any(x in META for x in vd):
                pair = (vd[0], vd[-1])
                break
        if pair and pair[0] != pair[1]:
            add('slice', dims[pair[0]] >= 1 and dims[pair[1]] >= 1 and 'POINTS' not in dims
                and not twice(pair[0]) and not twice(pair[1]),
                sel=[[pair[0], ['l', [0, 0]]], [pair[1], ['l', [0, -1]]]])
        if pair and pair[0] != pair[1]:
            # index list on one axis and an integer on another axis of the same variable
            add('slice', dims[pair[0]] >= 1 and dims[pair[1]] >= 1 and not twice(pair[0]),
                sel=[[pair[0], ['l', [0]]], [pair[1], ['i', 0]]])
        if 'ROW' in dims and 'COL' in dims:
            add('slice', dims['ROW'] >= 1 and dims['COL'] >= 1,
                sel=[['ROW', ['l', [0, dims['ROW'] - 1]]], ['COL', ['i', 0]]])
        lens_ok = all(all(dims[x] >= 1 for x in vd) for vd, dt in vars_.values())
        for d in ([d0, dl] if d0 != dl else [d0]):
            num = _numeric_along(vars_, d)
            add('apply', num and dims[d] >= 1, dim=d, fn=['r', 'mean'])
            add('apply', num and dims[d] >= 1, dim=d, fn=['r', 'max'])
            if d == d0:
                add('apply', num and dims[d] >= 1, dim=d, fn=['r', 'min'], alias=True)
            if d == dl:
                add('apply', num and dims[d] >= 1 and lens_ok and not (conv and dims[d] <= 1), dim=d, fn=['k', 'head_2'])
            # (diff of a length-1 dimension is empty; along the second axis of a variable that carries the
            # dimension twice numpy.apply_along_axis is then undefined)
            add('apply', num and dims[d] >= 1 and lens_ok and not (conv and dims[d] <= 1)
                and not (dims[d] <= 1 and twice(d)), dim=d, fn=['f', 'diff'])
        # convention files: only stacking in time is documented (the vertical
        # / horizontal grid description cannot be derived for other axes)
        add('stack', (not conv or d0 == 'TSTEP') and not twice(d0), dim=d0)
        if full and d0 != dl:
            add('stack', (not conv or dl == 'TSTEP') and not twice(dl), dim=dl)
    vn = [k for k in vars_ if not (conv and k in ('TFLAG', 'ETFLAG'))]
    if vn:
        v0 = vn[0]
        add('subset', True, keys=[v0])
        add('subset', True, keys=[v0], exclude=True)
        add('subset', True, keys=[vn[-1]], alias=True)
        newv = next((n for n in ('RN1', 'RN2') if n not in vars_), None)
        if newv:
            add('renameVariable', True, old=v0, new=newv)
    if dn:
        newd = next((n for n in ('rd1', 'rd2') if n not in dims), None)
        if newd:
            add('renameDimension', not conv, old=dn[0], new=newd)
        if newd and len(dn) >= 2:
            newd2 = 'rd2' if newd == 'rd1' and 'rd2' not in dims else None
            if newd2:
                add('renameDimensions2', not conv, old=[dn[0], dn[-1]], new=[newd, newd2])
        # give an existing (possibly unlimited) dimension to the variables lacking it:
        # outside the narrow documented domain, but the result must still be well-formed
        add('insertDimension', False, name=dn[0], n=dims[dn[0]])
        if 'ins' not in dims:
            add('insertDimension', not conv, name='ins', n=2)
        if 'ins1' not in dims:
            add('insertDimension', not conv, name='ins1', n=1, before=dn[-1])
        add('removeSingleton', not conv)
        if len(dn) >= 2:
            add('reorderDimensions', not conv and not any(len(set(vd)) != len(vd) for vd, dt in vars_.values()),
                old=dn, new=dn[::-1])
    allnum = all(dt.kind in NUM for (vd, dt) in vars_.values())
    noncoord_num = all(dt.kind in NUM for k, (vd, dt) in vars_.items() if k not in coords)
    add('mask', allnum, greater=2000.5)
    wv = next((k for k, (vd, dt) in vars_.items() if dt.kind in NUM and len(vd) >= 1
               and k not in coords and not (conv and k in ('TFLAG', 'ETFLAG'))), None)
    if wv is not None:
        add('mask_where', allnum, var=wv)
    numvars = [k for k, (vd, dt) in vars_.items() if dt.kind in NUM and len(vd) >= 1
               and not (conv and k in ('TFLAG', 'ETFLAG'))]
    if numvars:
        nv = next((n for n in ('N1', 'N2') if n not in vars_), None)
        if nv:
            add('eval', True, expr='%s = %s * 2' % (nv, numvars[0]))
            add('eval', True, expr='%s = %s + 1' % (nv, numvars[-1]), copyall=True)
            # a plain assignment: the new variable must not be the old one
            add('eval', True, expr='%s = %s' % (nv, numvars[0]))
    add('binop', noncoord_num and (not conv or flags_are_coords), o='+')
    add('binop', noncoord_num and (not conv or flags_are_coords), o='/')
    if dn and not conv:
        # right operand with the same shapes but another dimension name: the result keeps the left's dimensions
        add('binop_renamed', noncoord_num, dim=dn[0])
        # a left operand that is shorter along one dimension: outside the domain (the second operand may be
        # broadcast to the first, not the reverse), but whatever comes back must be well-formed
        add('binop_reduced_left', False, dim=dn[0])
        # renaming a dimension to its own name changes nothing
        add('renameDimension', not conv, old=dn[-1], new=dn[-1])
    if 'x' in vars_ and vars_['x'][0] == ('x',) and dims.get('x', 0) >= 2 \
            and vars_['x'][1].kind in NUM:
        xv = np.asarray(f.variables['x'][...], dtype='d')
        dx = np.diff(xv)
        mono = bool((dx > 0).all() or (dx < 0).all())
        num = _numeric_along(vars_, 'x')
        lens_ok = all(all(dims[x] >= 1 for x in vd) for vd, dt in vars_.values())
        add('interpDimension', mono and num and lens_ok, dim='x')
    if isio and 'LAY' in dims and dims['LAY'] >= 1 and hasattr(f, 'VGLVLS') and \
            np.atleast_1d(f.VGLVLS).size == dims['LAY'] + 1 and type(f).__name__ != 'uamiv':
        add('interpSigma', True, vglvls=[1., .5, 0.], vgtop=4000.)
    add('from_ncf', True)
    if len(vars_) >= 2 and not conv:
        # merge([one-variable subset, this file]): the other variables are taken from this file
        add('merge', True, first=list(vars_)[0])
    if full:
        add('getvarpnc', True)
        if dn:
            add('removesingleton_f', not conv, dim=dn[0])
            add('slice_dim_f', dims[dn[0]] >= 1, dim=dn[0])
            # every second element (the stride need not divide the length)
            add('slice_dim_f', True, dim=dn[-1], text='None,None,2')
            # (reducing the vertex dimension of a CF bounds variable is outside the domain: cell bounds
            # without their vertices mean nothing)
            def vertex(d):
                # ... likewise bounds variables that are not (coordinate dimension, vertices) pairs any more
                return any(('_bounds' in k or '_bnds' in k) and vd and d in vd and (vd[-1] == d or len(vd) != 2 or dims[vd[-1]] < 2)
                           for k, (vd, dt) in vars_.items())
            add('reduce_dim_f', dims[dn[-1]] >= 1 and _numeric_along(vars_, dn[-1]) and not vertex(dn[-1]), dim=dn[-1])
            if dn[0] != dn[-1]:
                add('reduce_dim_f', dims[dn[0]] >= 1 and _numeric_along(vars_, dn[0]) and not vertex(dn[0]), dim=dn[0])
    return ops


def do_op(f, op):
    """Execute one descriptor on the real object; returns the new file."""
    from .ref import rops
    P = core.load_lib()
    name = op['op']
    if name == 'copy':
        return f.copy()
    if name == 'slice':
        kw = OrderedDict((d, rops.sel_to_py(tuple(s))) for d, s in op['sel'])
        return f.slice(**kw) if op.get('alias') else f.sliceDimensions(**kw)
    if name == 'apply':
        fn = op['fn']
        if fn[0] == 'k':
            # the dict form with a required keyword option that decides the output length
            return f.applyAlongDimensions(**{op['dim']: dict(func1d=_head, n=int(fn[1].split('_')[1]))})
        return (f.apply if op.get('alias') else f.applyAlongDimensions)(
            **{op['dim']: fn[1] if fn[0] == 'r' else rops.FUNCS[fn[1]]})
    if name == 'stack':
        return f.stack(f, op['dim'])
    if name == 'subset':
        return (f.subset if op.get('alias') else f.subsetVariables)(list(op['keys']), exclude=op.get('exclude', False))
    if name == 'renameVariable':
        return f.renameVariable(op['old'], op['new'])
    if name == 'renameDimension':
        return f.renameDimension(op['old'], op['new'])
    if name == 'renameDimensions2':
        return f.renameDimensions(**OrderedDict(zip(op['old'], op['new'])))
    if name == 'insertDimension':
        kw = {op['name']: op['n']}
        if op.get('before'):
            return f.insertDimension(before=op['before'], **kw)
        return f.insertDimension(**kw)
    if name == 'removeSingleton':
        return f.removeSingleton()
    if name == 'reorderDimensions':
        return f.reorderDimensions(op['old'], op['new'])
    if name == 'mask':
        return f.mask(greater=op['greater'])
    if name == 'mask_where':
        v = f.variables[op['var']]
        data = np.ma.getdata(v[...])
        where = np.zeros(data.shape, bool)
        where.flat[::2] = True
        return f.mask(where=where, dims=tuple(v.dimensions))
    if name == 'eval':
        return f.eval(op['expr'], inplace=False, copyall=op.get('copyall', False))
    if name == 'binop':
        if op['o'] == '+':
            return f + f
        if op['o'] == '/':
            return f / f
        if op['o'] == '-':
            return f - f
        if op['o'] == '*':
            return f * f
    if name == 'binop_reduced_left':
        return f.applyAlongDimensions(**{op['dim']: 'mean'}) - f
    if name == 'binop_renamed':
        return f - f.renameDimension(op['dim'], op['dim'] + '_r')
    if name == 'interpDimension':
        xv = np.asarray(f.variables[op['dim']][...], dtype='d')
        mids = (xv[:-1] + xv[1:]) / 2.
        return f.interpDimension(op['dim'], mids)
    if name == 'interpSigma':
        return f.interpSigma(np.array(op['vglvls'], dtype='f'), vgtop=op.get('vgtop'),
                             interptype='linear')
    if name == 'from_ncf':
        from PseudoNetCDF.cmaqfiles._ioapi import ioapi_base
        if isinstance(f, ioapi_base):
            return ioapi_base.from_ncf(f)
        return P.PseudoNetCDFFile.from_ncf(f)
    from PseudoNetCDF.core import _functions as F
    if name == 'merge':
        return F.merge([f.subsetVariables([op['first']]), f])
    if name == 'getvarpnc':
        return F.getvarpnc(f, None)
    if name == 'removesingleton_f':
        return F.removesingleton(f, op['dim'])
    if name == 'slice_dim_f':
        return F.slice_dim(f, '%s,%s' % (op['dim'], op.get('text', '0')))
    if name == 'reduce_dim_f':
        return F.reduce_dim(f, '%s,mean' % op['dim'])
    raise ValueError('unknown op %r' % (op,))


# ------------------------------------------------------------------------
# queries (C05a): must leave the receiver unchanged; produce no successor

def queries(f):
    dims, vars_ = _structure(f)
    qs = [{'q': 'repr'}, {'q': 'dump'}, {'q': 'save', 'format': 'NETCDF4_CLASSIC'},
          {'q': 'save', 'format': 'NETCDF3_CLASSIC'}]
    if 'x' in vars_ and vars_['x'][0] == ('x',) and dims.get('x', 0) >= 2:
        for m in ('nearest', 'bounds', 'exact'):
            qs.append({'q': 'val2idx', 'dim': 'x', 'method': m})
    if 'time' in vars_ or 'TFLAG' in vars_ or 'tau0' in vars_:
        qs.append({'q': 'getTimes'})
        qs.append({'q': 'getTimes', 'bounds': True})
    if 'time' in vars_ and vars_['time'][0] == ('time',):
        qs.append({'q': 'date2num'})
        qs.append({'q': 'time2idx'})
    return qs


def do_query(f, q, tmpdir):
    """execute a query; the return value is ignored (C05a checks the receiver)"""
    import io
    import os
    name = q['q']
    if name == 'repr':
        return repr(f)
    if name == 'dump':
        import contextlib
        buf = io.StringIO()
        with contextlib.redirect_stdout(buf):
            f.dump(header=False, outfile=buf) if False else f.dump(outfile=buf)
        return None
    if name == 'save':
        path = os.path.join(tmpdir, 'q_%d.nc' % os.getpid())
        if os.path.exists(path):
            os.unlink(path)
        out = f.save(path, format=q['format'], verbose=0)
        try:
            out.close()
        except Exception:
            pass
        return None
    if name == 'val2idx':
        xv = np.asarray(np.ma.getdata(f.variables[q['dim']][...]), dtype='d')
        vals = np.array([xv[0], (xv[0] + xv[-1]) / 2., xv[-1]])
        return f.val2idx(q['dim'], vals, method=q['method'], bounds='ignore')
    if name == 'getTimes':
        return f.getTimes(bounds=q.get('bounds', False))
    if name == 'date2num':
        return f.date2num(f.getTimes(), timekey='time')
    if name == 'time2idx':
        return f.time2idx(f.getTimes(), dim='time')
    raise ValueError(q)
