#!/bin/bash
# usage: seedtest.sh <seed_dir with patch.diff demo.py> <name> <check ids...>
# Verifies a seeded change in a scratch worktree (baseline still passes, demo fails with / passes
# without), then runs the named checks (quick tier) against the changed tree via VERIF_PNC_SRC.
SD=$1; NAME=$2; shift 2
WT=/tmp/sv_$NAME
git -C /repo worktree remove --force $WT 2>/dev/null
git -C /repo worktree add -q --detach $WT HEAD || exit 9
( cd $WT && git apply --3way $SD/patch.diff 2>/dev/null || git apply $SD/patch.diff ) || { echo "PATCH DOES NOT APPLY"; git -C /repo worktree remove --force $WT; exit 8; }
echo "== patch applied to scratch $WT"
PYTHONPATH=/repo/src /venv/bin/python $SD/demo.py >/dev/null 2>&1; echo "demo on clean tree: exit $?"
PYTHONPATH=$WT/src /venv/bin/python $SD/demo.py >/dev/null 2>&1; echo "demo on changed tree: exit $?"
if [ -z "$SKIP_BASELINE" ]; then /verif/tools/baseline.py $WT | head -5; fi
for id in "$@"; do
  VERIF_EVIDENCE_DIR=/tmp/sv_evidence VERIF_PNC_SRC=$WT/src /verif/check $id --tier ${TIER:-quick} > /tmp/sv_$NAME.$id.log 2>&1; rc=$?
  echo "check $id on changed tree: exit $rc  $(grep -c '^VIOLATION' /tmp/sv_$NAME.$id.log) VIOLATION lines"
  grep -A1 '^VIOLATION' /tmp/sv_$NAME.$id.log | grep signature | cut -c1-220 | head -4
done
git -C /repo worktree remove --force $WT
