"""C18 - GEOS-Chem binary punch read/write round trip and scaling (Engine A)."""
import io
import os
import shutil
import tempfile
import itertools
import contextlib

import numpy as np

from ..engine import core
from ..engine.core import viol, result, h64
from ..ref import rfortran as rf
from .. import lib

CATS = [('IJ-AVG-$', 0), ('PEDGE-$', 1000)]
# (a negative scale fills all ten columns of the table's SCALE field: '-2.500E+00')
TRACERS = {0: [(1, 'NOx', 1e9, 'ppbv'), (2, 'Ox', -2.5, 'negscale'), (3, 'PAN', 1e12, 'pptv')],
           1000: [(1001, 'PSURF', 1.0, 'hPa'), (1002, 'PEDGE2', 1e9, 'ppbv')]}


def quiet():
    return contextlib.redirect_stdout(io.StringIO())


class Prop(core.Prop):
    ID = 'C18'
    ENGINE = 'A'
    RULE = ('every (1-3 time blocks, 1-2 categories, 1-2 tracers per category, layer-count pattern over {1,2,3}, '
            'nested-grid offset, table variant in {complete, missing tracer line}) is reference-encoded with its '
            'tracerinfo/diaginfo tables and read unscaled, scaled, by the alternative reader, written and re-read; '
            'non-trivial always; distinct = distinct recipes')
    ASSUMPTIONS = [
        'bpch layout of DESIGN Appendix A; the reference codec reproduces the bundled sample byte for byte',
        'scaled values are compared with float32(raw) * scale to a relative 1e-6 (the readers multiply in '
        'different precisions); unscaled data bit for bit',
    ]

    def bounds(self, tier):
        return {'time_blocks': [1, 2, 3] if tier == 'quick' else [1, 2, 3, 4, 5], 'categories': [1, 2], 'tracers_per_category': [1, 2],
                'layer_patterns': ['1', '3', '2+3', '3+1', '2 / 1+2+3 / 3+2+1 (thorough)'],
                'offsets': [(1, 1, 1), (13, 50, 1), (2, 3, 2), (1, 9, 1), (72, 1, 1), '(1,1,3), (1,9,2) (thorough)'],
                'tables': ['complete', 'missing-line'], 'header_flags': ['11', '01', '10', '00'],
                'block_length_hours': [1, '1/3', '1/2 (thorough)'],
                'entry_points': ['bpch1', 'bpch2', 'bpch (default / reader=bpch1 / reader=bpch2)']}

    def worker_init(self):
        core.load_lib()
        base = '/dev/shm' if os.path.isdir('/dev/shm') else None
        self.tmp = tempfile.mkdtemp(prefix='verif_c18_', dir=base)
        import atexit
        atexit.register(shutil.rmtree, self.tmp, True)
        b = open(os.path.join(os.path.dirname(lib.pnc().__file__), 'testcase', 'geoschemfiles', 'test.bpch'),
                 'rb').read()
        d = rf.dec_bpch(b)
        f0 = d['flat'][0]
        assert rf.enc_bpch(dict(ftype=d['ftype'], toptitle=d['toptitle'], modelname=f0['modelname'],
                                modelres=f0['modelres'], halfpolar=f0['halfpolar'],
                                center180=f0['center180'], blocks=[d['flat']])) == b

    def groups(self, tier):
        for nt in ((1, 2, 3) if tier == 'quick' else (1, 2, 3, 4, 5)):
            for ncat in (1, 2):
                for ntr in (1, 2):
                    yield {'nt': nt, 'ncat': ncat, 'ntr': ntr}

    def expand(self, group):
        th = self.tier == 'thorough'
        for lp in (('1', '3', '2+3', '3+1') + (('2', '1+2+3', '3+2+1') if th else ())):
            # (windows offset along one axis only, two axes, all three)
            for off in (((1, 1, 1), (13, 50, 1), (2, 3, 2), (1, 9, 1), (72, 1, 1)) + (((1, 1, 3), (1, 9, 2)) if th else ())):
                for tables in ('complete', 'missing-line'):
                    yield dict(group, layers=lp, start=list(off), tables=tables)
                    if th:
                        for dt in (2, 3, 4):
                            yield dict(group, layers=lp, start=list(off), tables=tables, dt=dt)
                        for flags in ((0, 1), (1, 0)):
                            yield dict(group, layers=lp, start=list(off), tables=tables, flags=list(flags))
        # header flag variants and sub-hourly (20-minute) time blocks
        for flags in ((0, 1), (1, 0), (0, 0)):
            yield dict(group, layers='2+3', start=[1, 1, 1], tables='complete', flags=list(flags))
        if (group['nt'], group['ncat'], group['ntr']) == (1, 1, 1):
            for lp in ('1', '2', '3'):
                for sw in (1, 2, 3):
                    yield dict(group, layers=lp, start=[1, 1, 1], tables='complete', slotswap=sw)
        for lp in ('1', '2+3'):
            yield dict(group, layers=lp, start=[1, 1, 1], tables='complete', reserved=True)
            yield dict(group, layers=lp, start=[13, 50, 1], tables='complete', reserved=True, dt=3)
        if group['nt'] >= 2:
            for lp in ('1', '2+3'):
                yield dict(group, layers=lp, start=[1, 1, 1], tables='complete', revtime=True)
                yield dict(group, layers=lp, start=[2, 3, 2], tables='complete', revtime=True, dt=3)
        for lp in ('1', '2+3'):
            # a diaginfo.dat whose last line has no trailing newline; window origins that differ between tracers
            yield dict(group, layers=lp, start=[1, 1, 1], tables='complete', nonl=True)
            yield dict(group, layers=lp, start=[2, 3, 2], tables='complete', perstart=True)
        for lp in ('1', '2+3'):
            yield dict(group, layers=lp, start=[1, 1, 1], tables='complete', dt=3)
            yield dict(group, layers=lp, start=[1, 1, 1], tables='complete', instant=True)
            if self.tier == 'thorough':
                yield dict(group, layers=lp, start=[2, 3, 2], tables='complete', dt=2, flags=[0, 1])

    def recipe(self, case):
        ni, nj = 5, 4
        lay = [int(x) for x in case['layers'].split('+')]
        blocks = []
        vars_ = []
        for ci in range(case['ncat']):
            cat, off = CATS[ci]
            for ti in range(case['ntr']):
                num, name, scale, unit = TRACERS[off][ti]
                nl = lay[(ci * 2 + ti) % len(lay)]
                vars_.append((cat, off, num, name, scale, unit, nl))
        # the first block defines the file dimensions: give it the largest layer count
        vars_.sort(key=lambda v: -v[6])
        dt = 1.0 / case.get('dt', 1)
        self.taus = [(175343.0 + t * dt, 175343.0 + (t + 1) * dt) for t in range(case['nt'])]
        if case.get('instant'):
            # instantaneous output: every record is stamped tau1 == tau0
            self.taus = [(a, a) for a, b in self.taus]
        if case.get('revtime'):
            # time blocks stored newest first (punch files concatenated in reverse): readers present file order
            self.taus = self.taus[::-1]
        for t in range(case['nt']):
            blk = []
            for k, (cat, off, num, name, scale, unit, nl) in enumerate(vars_):
                data = (1e-9 * (1 + np.arange(nl * nj * ni) + 100 * k + 1000 * t)).reshape(nl, nj, ni).astype('f4')
                # the 40-character 'reserved' field of the block header: blank, or a tag per tracer
                rsv = ('station=%s run=%d' % ('ABCD'[k % 4], 17 + k)) if case.get('reserved') and k % 2 == 0 else ''
                blk.append(dict(category=cat, tracer=num - off, unit='v/v', tau0=self.taus[t][0], tau1=self.taus[t][1],
                                reserved=rsv, start=(tuple(case['start']) if not case.get('perstart') else
                                                     (case['start'][0] + k, case['start'][1] + k % 2, case['start'][2])),
                                data=data))
            blocks.append(blk)
        r = dict(ftype='CTM bin 02', toptitle='GEOS-CHEM binary punch file v. 2.0', modelname='GEOS5_47L',
                 modelres=(2.5, 2.0), halfpolar=case.get('flags', [1, 1])[0],
                 center180=case.get('flags', [1, 1])[1], blocks=blocks)
        return r, vars_

    def check_times(self, f, rd, mode, scope):
        """time_bounds[i] is (tau0, tau1) of the i-th time block, time its mid point (bpch1) or begin (bpch2)"""
        vs = []
        want = [[a, b] for a, b in self.taus]
        keys = f.variables.keys()
        for k, exp in (('tau0', [a for a, b in self.taus]), ('tau1', [b for a, b in self.taus]),
                       ('time_bounds', want)):
            if k in keys:
                got = np.asarray(f.variables[k][...], 'd').tolist()
                if got != exp:
                    vs.append(viol('time-bounds', (rd, mode, k), '%s is %r; the block headers say %r' % (k, got, exp),
                                   **scope))
        if 'time' in keys and rd == 'bpch1':
            got = np.asarray(f.variables['time'][...], 'd').tolist()
            exp = [(a + b) / 2 for a, b in self.taus]
            if got != exp:
                vs.append(viol('time-bounds', (rd, mode, 'time'), 'time is %r; block mid points are %r' % (got, exp), **scope))
        return vs

    def check_ids(self, f, vars_, key, rd, mode, scope):
        """category and tracer identifiers are those of the block header"""
        vs = []
        for v in vars_:
            cat, off, num, name, scale, unit, nl = v
            kk = key(v)
            if kk not in f.variables.keys():
                continue
            var = f.variables[kk]
            got = (getattr(var, 'category', None), getattr(var, 'tracerid', None))
            try:
                got = (str(got[0]).strip(), int(got[1]))
            except Exception:
                pass
            if got != (cat, num - off):
                vs.append(viol('identifiers', (rd, mode), '%s: (category, tracerid) attributes %r; block header has %r'
                               % (kk, got, (cat, num - off)), **scope))
        return vs

    def run_slotswap(self, case):
        """two time blocks of identical layout whose single slot holds tracer 1 first and tracer 2 afterwards: a
        reader either refuses the file or presents each tracer with exactly the blocks the file holds for it"""
        P = lib.pnc()
        ni, nj, nl = 5, 4, int(case['layers'])
        mk = lambda tr, t, s_: dict(category='IJ-AVG-$', tracer=tr, unit='v/v', tau0=175343.0 + t, tau1=175344.0 + t,
                                    reserved='', start=(1, 1, 1),
                                    data=(1e-9 * (1 + np.arange(nl * nj * ni) + s_)).reshape(nl, nj, ni).astype('f4'))
        blocks = [[mk(1, 0., 0)], [mk(2, 1., 500)]]
        if case['slotswap'] == 2:
            blocks = [[mk(1, 0., 0), mk(2, 0., 100)], [mk(2, 1., 500), mk(1, 1., 600)]]
        if case['slotswap'] == 3:
            # the first slot repeats (so the file maps as two time blocks), the second holds another tracer
            blocks = [[mk(1, 0., 0), mk(2, 0., 100)], [mk(1, 1., 500), mk(3, 1., 600)]]
        raw = rf.enc_bpch(dict(ftype='CTM bin 02', toptitle='GEOS-CHEM binary punch file v. 2.0', modelname='GEOS5_47L',
                               modelres=(2.5, 2.0), halfpolar=1, center180=1, blocks=blocks))
        self.ncase = getattr(self, 'ncase', 0) + 1
        if getattr(self, 'lastdir', None):
            shutil.rmtree(self.lastdir, True)
        d = self.lastdir = os.path.join(self.tmp, 'c_%d_%d' % (os.getpid(), self.ncase))
        shutil.rmtree(d, True)
        os.makedirs(d)
        path = os.path.join(d, 'ref.bpch')
        with open(path, 'wb') as fh:
            fh.write(raw)
        with open(os.path.join(d, 'tracerinfo.dat'), 'w') as fh:
            fh.write('# reference tracerinfo\n')
            for off in (0, 1000):
                for num, name, scale, unit in TRACERS[off]:
                    fh.write(rf.tracerinfo_line(name, name + ' tracer', 2.8e-2, 1, num, scale, unit) + '\n')
        with open(os.path.join(d, 'diaginfo.dat'), 'w') as fh:
            fh.write('# reference diaginfo\n')
            for cat, off in CATS:
                fh.write(rf.diaginfo_line(off, cat, 'category ' + cat) + '\n')
        held = {}
        for blk in blocks:
            for b in blk:
                held.setdefault({1: 'IJ-AVG-$_NOx', 2: 'IJ-AVG-$_Ox', 3: 'IJ-AVG-$_PAN'}[b['tracer']], []).append(b['data'])
        vs, ntrans = [], 0
        scope = dict(nt=2, ncat=1, ntr=len(blocks[0]), layers=case['layers'], nested=False, tables='complete',
                     subhourly=False, flags='11', revtime=False, reserved=False, slotswap=case['slotswap'])
        for entry in ('bpch1', 'bpch', 'bpch2'):
            try:
                with quiet():
                    f = P.pncopen(path, format=entry, noscale=True)
                ntrans += 1
                for kk, blks in held.items():
                    if kk not in f.variables.keys():
                        vs.append(viol('variable-missing', (entry, 'slot-swap'), '%s not presented (%r)' % (
                            kk, [k_ for k_ in f.variables.keys() if '$' in k_]), reader=entry, **scope))
                        continue
                    got = np.asarray(f.variables[kk][...])
                    want = np.array(blks)
                    if got.shape != want.shape or got.astype('f4').tobytes() != want.tobytes():
                        vs.append(viol('blocks-misattributed', (entry, 'slot-swap'),
                                       '%s presented with shape %r; the file holds %d block(s) of it'
                                       % (kk, got.shape, len(blks)), reader=entry, **scope))
            except Exception:
                continue      # refusing such a file is fine
        return result('viol' if vs else 'ok', vs, [h64(raw)], ntrans, h64('slot', sorted(case.items(), key=str)),
                      h64(raw) if not vs else None)

    def run_one(self, case):
        if case.get('slotswap'):
            return self.run_slotswap(case)
        P = lib.pnc()
        from PseudoNetCDF.pncgen import pncgen
        r, vars_ = self.recipe(case)
        raw = rf.enc_bpch(r)
        # a fresh directory per case (tables live next to the file); the previous one is removed best-effort
        self.ncase = getattr(self, 'ncase', 0) + 1
        if getattr(self, 'lastdir', None):
            shutil.rmtree(self.lastdir, True)
        d = self.lastdir = os.path.join(self.tmp, 'c_%d_%d' % (os.getpid(), self.ncase))
        shutil.rmtree(d, True)
        os.makedirs(d)
        path = os.path.join(d, 'ref.bpch')
        with open(path, 'wb') as fh:
            fh.write(raw)
        missing = None
        with open(os.path.join(d, 'tracerinfo.dat'), 'w') as fh:
            fh.write('# reference tracerinfo\n')
            for off in (0, 1000):
                for num, name, scale, unit in TRACERS[off]:
                    if case['tables'] == 'missing-line' and num == vars_[-1][2]:
                        missing = num
                        continue
                    fh.write(rf.tracerinfo_line(name, name + ' tracer', 2.8e-2, 1, num, scale, unit) + '\n')
        with open(os.path.join(d, 'diaginfo.dat'), 'w') as fh:
            fh.write('# reference diaginfo\n')
            txt = ''.join(rf.diaginfo_line(off, cat, 'category ' + cat) + '\n' for cat, off in CATS)
            fh.write(txt[:-1] if case.get('nonl') else txt)
        st = [h64(raw)]
        scope = dict(nt=case['nt'], ncat=case['ncat'], ntr=case['ntr'], layers=case['layers'],
                     nested=bool(case['start'] != [1, 1, 1]), tables=case['tables'],
                     subhourly=bool(case.get('dt', 1) != 1), flags='%d%d' % tuple(case.get('flags', [1, 1])),
                     revtime=bool(case.get('revtime')), reserved=bool(case.get('reserved')))
        vs = []
        ntrans = 0

        def key(v):
            cat, off, num, name, scale, unit, nl = v
            if num != missing:
                return '%s_%s' % (cat, name)
            # documented: without a tracerinfo line the tracer takes the name of the tracer
            # with that number and no offset, or the number itself
            base = [n_ for (u_, n_, s_, t_) in TRACERS[0] if u_ == num - off and u_ != missing]
            return '%s_%s' % (cat, base[0] if base else str(num - off))

        # 1. unscaled read, rewrite must reproduce the bytes
        try:
            with quiet():
                fn = P.pncopen(path, format='bpch1', noscale=True)
            ntrans += 1
            for k, v in enumerate(vars_):
                kk = key(v)
                if kk not in fn.variables.keys():
                    vs.append(viol('variable-missing', ('bpch1', 'noscale'), '%s not in %r' % (kk, list(fn.variables.keys())[:8]),
                                   **scope))
                    continue
                got = np.asarray(fn.variables[kk][...])
                want = np.array([r['blocks'][t][k]['data'] for t in range(case['nt'])])
                if got.shape != want.shape or got.astype('f4').tobytes() != want.tobytes():
                    vs.append(viol('raw-data', ('bpch1', 'noscale'), '%s: %r %s expected %r %s' % (
                        kk, got.shape, got.ravel()[:3], want.shape, want.ravel()[:3]), **scope))
            t0 = np.asarray(fn.variables['tau0'][...], 'd').tolist()
            t1 = np.asarray(fn.variables['tau1'][...], 'd').tolist()
            if t0 != [a for a, b in self.taus] or t1 != [b for a, b in self.taus]:
                vs.append(viol('time-bounds', ('bpch1', 'noscale'), 'tau0 %r tau1 %r' % (t0, t1), **scope))
            vs += self.check_times(fn, 'bpch1', 'noscale', scope)
            vs += self.check_ids(fn, vars_, key, 'bpch1', 'noscale', scope)
            out = os.path.join(d, 'out.bpch')
            with quiet():
                pncgen(fn, out, format='bpch', verbose=0).close()
            ntrans += 1
            wraw = open(out, 'rb').read()
            if wraw != raw:
                try:
                    dec = rf.dec_bpch(wraw)
                    i = next((k for k in range(min(len(raw), len(wraw))) if raw[k] != wraw[k]), -1)
                    vs.append(viol('rewrite-bytes', ('ncf2bpch', 'noscale'),
                                   'rewritten file differs from the original at byte %d (%d vs %d bytes, %d blocks)'
                                   % (i, len(wraw), len(raw), len(dec['flat'])), **scope))
                except rf.LayoutError as e:
                    vs.append(viol('rewrite-layout', ('ncf2bpch', 'noscale'), str(e), **scope))
        except Exception as e:
            vs.append(viol('raises', ('bpch1', 'noscale'), '%s: %r' % (type(e).__name__, e), exc=type(e).__name__,
                           **scope))
        # 2. scaled read
        fs = None
        try:
            with quiet():
                fs = P.pncopen(path, format='bpch1')
            ntrans += 1
            vs += self.check_times(fs, 'bpch1', 'scaled', scope)
            vs += self.check_ids(fs, vars_, key, 'bpch1', 'scaled', scope)
            for k, v in enumerate(vars_):
                cat, off, num, name, scale, unit, nl = v
                kk = key(v)
                if kk not in fs.variables.keys():
                    continue
                var = fs.variables[kk]
                got = np.asarray(var[...], 'd')
                want = np.array([r['blocks'][t][k]['data'] for t in range(case['nt'])]).astype('d')
                if num != missing:
                    want = want * scale
                    if getattr(var, 'units', None) != unit:
                        vs.append(viol('unit', ('bpch1', 'scaled'), '%s units %r expected %r' % (kk, getattr(var, 'units', None), unit),
                                       **scope))
                    if got.shape != want.shape or not np.allclose(got, want, rtol=1e-6, atol=0):
                        vs.append(viol('scaled-data', ('bpch1', 'scaled'), '%s: %s expected %s (scale %g)' % (
                            kk, got.ravel()[:3], want.ravel()[:3], scale), **scope))
        except Exception as e:
            vs.append(viol('raises', ('bpch1', 'scaled'), '%s: %r' % (type(e).__name__, e), exc=type(e).__name__,
                           **scope))
        # 3. write the scaled file, read it back
        if fs is not None and not vs:
            try:
                out2 = os.path.join(d, 'out2.bpch')
                src0 = {key(v): np.array(fs.variables[key(v)][...]) for v in vars_}
                with quiet():
                    pncgen(fs, out2, format='bpch', verbose=0).close()
                    fb = P.pncopen(out2, format='bpch1')
                ntrans += 2
                # writing must not change the file object it was given; a second write gives the same bytes
                for kk, a0 in src0.items():
                    if np.asarray(fs.variables[kk][...]).tobytes() != a0.tobytes():
                        vs.append(viol('source-modified-by-write', ('ncf2bpch', 'scaled'),
                                       '%s changed from %s to %s' % (kk, a0.ravel()[:3],
                                                                     np.asarray(fs.variables[kk][...]).ravel()[:3]),
                                       **scope))
                        break
                out3 = os.path.join(d, 'out3.bpch')
                with quiet():
                    pncgen(fs, out3, format='bpch', verbose=0).close()
                ntrans += 1
                # the same from an in-memory copy (array-backed variables)
                with quiet():
                    mem = fs.copy()
                m0 = {key(v): np.array(mem.variables[key(v)][...]) for v in vars_}
                out4 = os.path.join(d, 'out4.bpch')
                with quiet():
                    pncgen(mem, out4, format='bpch', verbose=0).close()
                ntrans += 2
                for kk, a0 in m0.items():
                    if np.asarray(mem.variables[kk][...]).tobytes() != a0.tobytes():
                        vs.append(viol('source-modified-by-write', ('ncf2bpch', 'in-memory'),
                                       '%s changed from %s to %s' % (kk, a0.ravel()[:3],
                                                                     np.asarray(mem.variables[kk][...]).ravel()[:3]),
                                       **scope))
                        break
                if open(out4, 'rb').read() != open(out2, 'rb').read():
                    vs.append(viol('in-memory-write-differs', ('ncf2bpch', 'in-memory'),
                                   'writing an in-memory copy gives a different file', **scope))
                if open(out3, 'rb').read() != open(out2, 'rb').read():
                    vs.append(viol('second-write-differs', ('ncf2bpch', 'scaled'), 'writing the same object twice '
                                   'gives different files', **scope))
                # the same content held as 64-bit floats (what the block-walking reader returns when it scales):
                # written, it reads back as the same numbers
                if case['tables'] == 'complete':
                    with quiet():
                        f64 = P.pncopen(path, format='bpch2')
                        out5 = os.path.join(d, 'out5.bpch')
                        pncgen(f64, out5, format='bpch', verbose=0).close()
                        fb5 = P.pncopen(out5, format='bpch1')
                    ntrans += 3
                    for v in vars_:
                        kk = key(v)
                        a = np.asarray(fs.variables[kk][...], 'd')
                        b = np.asarray(fb5.variables[kk][...], 'd') if kk in fb5.variables.keys() else None
                        if b is None or a.shape != b.shape or not np.allclose(a, b, rtol=1e-6, atol=0):
                            vs.append(viol('write-read-data', ('ncf2bpch', 'float64-source'), '%s: %s -> %s' % (
                                kk, a.ravel()[:3], None if b is None else b.ravel()[:3]), **scope))
                            break
                vs += self.check_times(fb, 'bpch1', 'written', scope)
                vs += self.check_ids(fb, vars_, key, 'bpch1', 'written', scope)
                for k, v in enumerate(vars_):
                    kk = key(v)
                    a = np.asarray(fs.variables[kk][...], 'd')
                    b = np.asarray(fb.variables[kk][...], 'd')
                    if a.shape != b.shape or not np.allclose(a, b, rtol=2e-7, atol=0):
                        vs.append(viol('write-read-data', ('ncf2bpch', 'scaled'), '%s: %s -> %s' % (kk, a.ravel()[:3], b.ravel()[:3]),
                                       **scope))
                dec = rf.dec_bpch(open(out2, 'rb').read())
                ref = rf.dec_bpch(raw)
                for x, y in zip(dec['flat'], ref['flat']):
                    for fld in ('category', 'tracer', 'tau0', 'tau1', 'start', 'modelname', 'modelres', 'halfpolar',
                                'center180', 'reserved'):
                        if x[fld] != y[fld]:
                            vs.append(viol('write-header', ('ncf2bpch', 'scaled'), '%s %r expected %r' % (fld, x[fld], y[fld]),
                                           field=fld, **scope))
                            break
                    else:
                        continue
                    break
                if len(dec['flat']) != len(ref['flat']):
                    vs.append(viol('write-blocks', ('ncf2bpch', 'scaled'), '%d blocks expected %d' % (len(dec['flat']), len(ref['flat'])),
                                   **scope))
            except Exception as e:
                vs.append(viol('raises', ('ncf2bpch', 'scaled'), '%s: %r' % (type(e).__name__, e), exc=type(e).__name__,
                               **scope))
        # 4. the alternative reader presents the same data
        for ns in (True, False):
            try:
                with quiet():
                    f1 = P.pncopen(path, format='bpch1', noscale=ns)
                    f2 = P.pncopen(path, format='bpch2', noscale=ns)
                ntrans += 2
                mode = 'noscale' if ns else 'scaled'
                vs += [x for x in self.check_times(f2, 'bpch2', mode, dict(scope, reader='bpch2'))]
                vs += self.check_ids(f2, vars_, key, 'bpch2', mode, dict(scope, reader='bpch2'))
                if ns:
                    # the unscaled read of the alternative reader, written back, reproduces the bytes too
                    outb = os.path.join(d, 'outb.bpch')
                    with quiet():
                        pncgen(f2, outb, format='bpch', verbose=0).close()
                    ntrans += 1
                    if open(outb, 'rb').read() != raw:
                        vs.append(viol('rewrite-bytes', ('ncf2bpch', 'bpch2-noscale'),
                                       'the bpch2 read written back differs from the original', reader='bpch2', **scope))
                for v in vars_:
                    kk = key(v)
                    if kk in f1.variables.keys() and kk in f2.variables.keys():
                        a = np.asarray(f1.variables[kk][...])
                        b = np.asarray(f2.variables[kk][...])
                        same = a.shape == b.shape and (a.tobytes() == b.tobytes() if ns else
                                                       np.allclose(a.astype('d'), b.astype('d'), rtol=1e-6, atol=0))
                        if not same:
                            vs.append(viol('readers-disagree', ('bpch1-vs-bpch2', 'noscale' if ns else 'scaled'),
                                           '%s: %r %s vs %r %s' % (kk, a.shape, a.ravel()[:3], b.shape, b.ravel()[:3]),
                                           reader='bpch1-vs-bpch2', **scope))
                    elif kk in f1.variables.keys():
                        vs.append(viol('readers-disagree', ('bpch1-vs-bpch2', 'variables'),
                                       '%s only in bpch1; bpch2 has %r' % (kk, list(f2.variables.keys())[:6]), **scope))
            except Exception as e:
                vs.append(viol('raises', ('bpch2', 'noscale' if ns else 'scaled'), '%s: %r' % (type(e).__name__, e),
                               exc=type(e).__name__, reader='bpch2', **scope))
        # 4b. the tracer table next to the file is replaced (other scale factors and units) and the file is read
        # again in the same process: both readers follow the table that is there now
        if case['tables'] == 'complete' and not vs:
            try:
                with open(os.path.join(d, 'tracerinfo.dat'), 'w') as fh:
                    fh.write('# reference tracerinfo, second edition\n')
                    for off in (0, 1000):
                        for num, name, scale, unit in TRACERS[off]:
                            fh.write(rf.tracerinfo_line(name, name + ' tracer', 2.8e-2, 1, num, scale * 1000., unit + 'x') + '\n')
                for rd in ('bpch1', 'bpch2'):
                    with quiet():
                        fr_ = P.pncopen(path, format=rd)
                    ntrans += 1
                    for k, v in enumerate(vars_):
                        cat, off, num, name, scale, unit, nl = v
                        kk = key(v)
                        if kk not in fr_.variables.keys():
                            continue
                        var = fr_.variables[kk]
                        got = np.asarray(var[...], 'd')
                        want = np.array([r['blocks'][t][k]['data'] for t in range(case['nt'])]).astype('d') * scale * 1000.
                        if str(getattr(var, 'units', '')).strip() != unit + 'x' or got.shape != want.shape \
                                or not np.allclose(got, want, rtol=1e-6, atol=0):
                            vs.append(viol('stale-tracer-table', (rd, 'table-replaced'),
                                           '%s after tracerinfo.dat was replaced: units %r (table: %r), values %s (table: %s)'
                                           % (kk, getattr(var, 'units', None), unit + 'x', got.ravel()[:2], want.ravel()[:2]),
                                           reader=rd, **scope))
                            break
            except Exception as e:
                vs.append(viol('raises', ('table-replaced',), '%s: %r' % (type(e).__name__, e), exc=type(e).__name__, **scope))
        # 5. the master class bpch(...) hands every option to whichever reader it uses
        for rd in (None, 'bpch1', 'bpch2'):
            for ns in (True, False):
                try:
                    with quiet():
                        kw = dict(noscale=ns)
                        if rd:
                            kw['reader'] = rd
                        fm = P.pncopen(path, format='bpch', **kw)
                        fd = P.pncopen(path, format=rd or 'bpch1', noscale=ns)
                    ntrans += 2
                    for v in vars_:
                        kk = key(v)
                        if kk in fd.variables.keys():
                            if kk not in fm.variables.keys():
                                vs.append(viol('master-differs', ('bpch', rd or 'default'), '%s missing' % kk,
                                               reader='master', **scope))
                                continue
                            a = np.asarray(fm.variables[kk][...])
                            b = np.asarray(fd.variables[kk][...])
                            if a.shape != b.shape or a.tobytes() != b.tobytes():
                                vs.append(viol('master-differs', ('bpch', rd or 'default'),
                                               '%s with noscale=%s: bpch(...) gives %s, %s(...) gives %s'
                                               % (kk, ns, a.ravel()[:3], rd or 'bpch1', b.ravel()[:3]),
                                               reader='master', **scope))
                                break
                except Exception as e:
                    if case['tables'] == 'complete':
                        vs.append(viol('raises', ('bpch', rd or 'default'), '%s: %r' % (type(e).__name__, e),
                                       exc=type(e).__name__, reader='master', **scope))
        return result('viol' if vs else 'ok', vs, st, ntrans, h64('c18', sorted(case.items(), key=str)),
                      h64(raw) if not vs else None)
