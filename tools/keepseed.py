#!/usr/bin/env python3
"""keepseed.py <src_dir> <seed_id> <property> <detected_by (comma list or 'none')> <needs text> [strengthened text]"""
import sys, os, shutil, json
src, sid, prop, det, needs = sys.argv[1:6]
extra = sys.argv[6] if len(sys.argv) > 6 else ''
dst = os.path.join('/verif/seeded', sid)
os.makedirs(dst, exist_ok=True)
for f in ('patch.diff', 'demo.py', 'notes.md'):
    if os.path.exists(os.path.join(src, f)):
        shutil.copy(os.path.join(src, f), os.path.join(dst, f))
meta = {'id': sid, 'property': prop, 'origin': 'independent sub-agent given only the property text and a scratch worktree',
        'needs_to_manifest': needs,
        'verified': 'tools/seedtest.sh: patch applied in a scratch worktree of /repo; repository baseline (145 stable tests) still passes; '
                    'demo.py exits 1 with the change and 0 without; listed checks run with VERIF_PNC_SRC=<scratch>/src',
        'detected_by': [] if det == 'none' else det.split(','),
        'check_strengthened': extra}
json.dump(meta, open(os.path.join(dst, 'meta.json'), 'w'), indent=1)
print('kept', dst)
