"""C12 - decoded times are the true instants for every supported encoding (Engine A)."""
import itertools
import datetime

import numpy as np

from ..engine import core
from ..engine.core import viol, result, h64
from ..ref import rtime
from .. import lib, ioapi_u

UNITS = ('days', 'hours', 'minutes', 'seconds')
CALS = (None, 'standard', 'gregorian', 'proleptic_gregorian', 'noleap', '365_day',
        'all_leap', '366_day')
# reference instants (y, m, d, H, M, S)
REFS = ((1970, 1, 1, 0, 0, 0), (1900, 1, 1, 0, 0, 0), (1999, 12, 31, 23, 59, 59),
        (2000, 2, 28, 12, 0, 0), (2000, 3, 1, 6, 30, 0), (2100, 12, 31, 0, 0, 0))
# spellings accepted by the library's reference-date parser: (name, precision, template, utc offset minutes)
SPELL = (
    ('date', 'D', '{Y}-{m}-{d}', 0),
    ('H', 'H', '{Y}-{m}-{d} {H}', 0),
    ('HM', 'M', '{Y}-{m}-{d} {H}:{M}', 0),
    ('HMS', 'S', '{Y}-{m}-{d} {H}:{M}:{S}', 0),
    ('HMS-UTC', 'S', '{Y}-{m}-{d} {H}:{M}:{S} UTC', 0),
    ('HM-UTC', 'M', '{Y}-{m}-{d} {H}:{M} UTC', 0),
    ('H-UTC', 'H', '{Y}-{m}-{d} {H} UTC', 0),
    ('HMS-Z', 'S', '{Y}-{m}-{d} {H}:{M}:{S}Z', 0),
    ('HM-Z', 'M', '{Y}-{m}-{d} {H}:{M}Z', 0),
    ('H-Z', 'H', '{Y}-{m}-{d} {H}Z', 0),
    ('HMS+0000', 'S', '{Y}-{m}-{d} {H}:{M}:{S}+0000', 0),
    ('HMS-0500', 'S', '{Y}-{m}-{d} {H}:{M}:{S}-0500', -300),
    ('HMS+0530', 'S', '{Y}-{m}-{d} {H}:{M}:{S}+0530', 330),
    ('HM+0100', 'M', '{Y}-{m}-{d} {H}:{M}+0100', 60),
)
OFFSETS = (0, 0.25, 0.5, 1, 59, 60, 365, 366, 1461, 36524, 36525, 73049)
# whole numbers only (integer-typed time variables); times before the reference instant included
IOFFSETS = (-366, -1, 0, 1, 59, 60, 365, 366, 1461, 36525)
TDTYPES = ('d', 'i', 'f', 'q')
YEARS = (1970, 1999, 2000, 2019, 2020, 2069, 2100)
HHMMSS = (0, 1, 59, 3000, 120000, 235959)
TSTEPS = (10000, 3000, 1, 240000, 1000000, 1680000)


def ref_for(ref, prec):
    y, m, d, H, M, S = ref
    if prec == 'D':
        return (y, m, d, 0, 0, 0)
    if prec == 'H':
        return (y, m, d, H, 0, 0)
    if prec == 'M':
        return (y, m, d, H, M, 0)
    return ref


def calclass(cal):
    if cal in rtime.NOLEAP:
        return 'noleap'
    if cal in rtime.ALLLEAP:
        return 'all_leap'
    return 'standard'


class Prop(core.Prop):
    ID = 'C12'
    ENGINE = 'A'
    RULE = ('CF part: every (unit, reference-date spelling, reference instant, calendar, bounds mode) is '
            'decoded for a 12-value offset vector and for a single value; IOAPI part: every day of 7 years x 6 '
            'times of day as TFLAG and as SDATE/STIME attributes, start instants x 6 TSTEP values x 1-3 steps '
            'through ioapi_base (updatetflag) and through the CF time synthesised from IOAPI metadata; '
            'non-trivial iff at least one encoded offset/step is non-zero; distinct = distinct encodings')
    ASSUMPTIONS = [
        'expected instants come from mc/ref/rtime.py (integer/Fraction calendar arithmetic); cftime is used '
        'as a second, external reference where it accepts the unit string',
        'a raise is an accepted outcome ("whenever time decoding returns"); only returned values are judged',
        'instants are compared as UTC; all chosen instants are whole microseconds',
    ]

    def bounds(self, tier):
        return {'units': UNITS, 'calendars': [str(c) for c in CALS], 'spellings': [s[0] for s in SPELL],
                'reference_instants': len(REFS), 'offsets': OFFSETS, 'years': YEARS, 'hhmmss': HHMMSS,
                'tsteps': TSTEPS, 'tier_note': 'quick = half of the reference instants and years',
                'time_variable_dtypes': ['f8', 'i4', 'f4', 'i8'], 'integer_offsets': IOFFSETS}

    def groups(self, tier):
        refs = REFS if tier == 'thorough' else REFS[:4]
        for unit in UNITS:
            for sp in range(len(SPELL)):
                for ri in range(len(refs)):
                    yield {'part': 'cf', 'unit': unit, 'spell': sp, 'ref': ri}
        years = YEARS if tier == 'thorough' else (1999, 2000, 2020, 2100)
        for y in years:
            for hh in HHMMSS:
                yield {'part': 'tflag', 'year': y, 'hhmmss': hh}
        for si in range(len(ioapi_u.STARTS)):
            for ts in TSTEPS:
                yield {'part': 'ioapi', 'start': si, 'tstep': ts}

    def expand(self, group):
        if group['part'] == 'cf':
            for cal in CALS:
                for mode in ('vector', 'single', 'bounds-var', 'bounds-approx'):
                    yield dict(group, cal=cal, mode=mode)
                # the calendar attribute in another letter case (CF: the values are not case sensitive)
                if cal is not None and (group['spell'] in (0, 3, 11) or self.tier == 'thorough'):
                    for mode in ('vector', 'bounds-var'):
                        yield dict(group, cal=cal, mode=mode, calspell=cal.upper())
                        yield dict(group, cal=cal, mode=mode, calspell=cal.title())
                # the same decoding for time variables stored as 32-bit integers, 32-bit floats, 64-bit integers
                if group['spell'] in (0, 3, 11) or self.tier == 'thorough':
                    for dt in TDTYPES[1:]:
                        yield dict(group, cal=cal, mode='vector', tdtype=dt)
        elif group['part'] == 'tflag':
            yield dict(group, branch='TFLAG')
            yield dict(group, branch='attrs')
        else:
            for nt in (1, 2, 3):
                for form in ('ioapi_base', 'cf-from-tflag', 'cf-from-attrs'):
                    yield dict(group, nt=nt, form=form)

    # ------------------------------------------------------------------
    def run_one(self, case):
        if case['part'] == 'cf':
            return self.run_cf(case)
        if case['part'] == 'tflag':
            return self.run_tflag(case)
        return self.run_ioapi(case)

    def run_cf(self, case):
        P = lib.pnc()
        name, prec, tmpl, off = SPELL[case['spell']]
        ref = ref_for(REFS[case['ref']], prec)
        refstr = tmpl.format(Y='%04d' % ref[0], m='%02d' % ref[1], d='%02d' % ref[2],
                             H='%02d' % ref[3], M='%02d' % ref[4], S='%02d' % ref[5])
        unit, cal, mode = case['unit'], case['cal'], case['mode']
        units = '%s since %s' % (unit, refstr)
        tdt = case.get('tdtype', 'd')
        vals = np.array(OFFSETS if mode != 'single' else OFFSETS[4:5], dtype='d')
        if tdt != 'd':
            vals = np.array(IOFFSETS, dtype='d')
        f = P.PseudoNetCDFFile()
        f.createDimension('time', vals.size)
        tv = f.createVariable('time', tdt, ('time',))
        tv[:] = vals
        tv.units = units
        if cal is not None:
            tv.calendar = case.get('calspell', cal)
        edges = None
        if mode == 'bounds-var':
            f.createDimension('nv', 2)
            tb = f.createVariable('time_bounds', 'd', ('time', 'nv'))
            edges = np.append(vals, vals[-1] + 1.)
            tb[:, 0] = edges[:-1]
            tb[:, 1] = edges[1:]
        elif mode == 'bounds-approx':
            vals = np.arange(4, dtype='d') * 0.5 + 1.     # uniform: edges are unambiguous
            f = P.PseudoNetCDFFile()
            f.createDimension('time', vals.size)
            tv = f.createVariable('time', 'd', ('time',))
            tv[:] = vals
            tv.units = units
            if cal is not None:
                tv.calendar = cal
            edges = np.append(vals - 0.25, vals[-1] + 0.25)
        enc = edges if edges is not None else vals
        cc = calclass(cal)
        sig = ('getTimes', 'cf', cc)
        scope = dict(part='cf', unit=unit, calclass=cc, spelling=name, mode=mode, tdtype=tdt,
                     calcase='lower' if case.get('calspell', cal) == cal else 'other',
                     ref_is_jan1=bool(ref[1] == 1 and ref[2] == 1),
                     ref_has_time=bool(ref[3] or ref[4] or ref[5]), tzoff=off)
        refx = ref + (0, off)
        vs = []
        st = [h64('cf', units, case.get('calspell', cal), mode, tdt)]
        try:
            got = f.getTimes(bounds=mode.startswith('bounds'))
        except Exception as e:
            return result('raised', [], st, 1, None, h64(type(e).__name__))
        want, wanterr = [], None
        for v in enc:
            try:
                want.append(rtime.cf_decode(float(v), unit, refx, cal))
            except Exception as e:
                wanterr = e
                want.append(None)
        try:
            gott = [rtime.tuple_of(t) for t in got]
        except Exception as e:
            vs.append(viol('not-datetimes', sig, 'getTimes returned %r' % (got,), **scope))
            return result('viol', vs, st)
        if len(gott) != len(want):
            vs.append(viol('wrong-count', sig, '%d instants for %d values' % (len(gott), len(want)), **scope))
        else:
            bad = [(float(v), g, w) for v, g, w in zip(enc, gott, want) if g != w]
            if bad:
                # a non-Gregorian calendar date that does not exist as a python datetime
                # cannot be returned at all: classify separately
                unrep = all(w is not None and not _exists(w) for v, g, w in bad)
                vs.append(viol('instant-differs' if not unrep else 'unrepresentable-date-returned', sig,
                               '%s: %d of %d differ, e.g. value %r -> %r expected %r'
                               % (units, len(bad), len(want), bad[0][0], bad[0][1], bad[0][2]),
                               **scope))
        # second opinion: cftime (only where it accepts the unit string)
        try:
            if prec == 'H' or 'UTC' in refstr or refstr.endswith('Z'):
                raise ValueError('cftime does not parse this spelling reliably')
            import cftime
            c = cftime.num2date(enc, units, calendar=cal or 'standard', only_use_cftime_datetimes=True)
            cft = [(x.year, x.month, x.day, x.hour, x.minute, x.second, x.microsecond) for x in c]
            if [w for w in want] != cft:
                return result('harness-disagree', [viol('reference-models-disagree', ('harness',),
                              'rtime %r vs cftime %r for %s %s' % (want[:3], cft[:3], units, cal))], st)
        except Exception:
            pass
        if not vs and mode in ('vector', 'single'):
            # inverse laws
            try:
                back = np.asarray(f.date2num(got, timekey='time'), dtype='d')
                if back.shape != vals.shape or not np.array_equal(back, vals):
                    vs.append(viol('date2num-not-inverse', ('date2num', 'cf', cc),
                                   'date2num(getTimes())=%s stored %s' % (back, vals), **scope))
                idx = np.asarray(f.time2idx(got, dim='time'))
                if idx.tolist() != list(range(vals.size)):
                    vs.append(viol('time2idx-not-identity', ('time2idx', 'cf', cc),
                                   'time2idx(getTimes())=%s' % idx.tolist(), **scope))
            except Exception as e:
                vs.append(viol('inverse-raises', ('date2num', 'cf', cc), '%s: %r' % (type(e).__name__, e),
                               **scope))
        if not vs and mode == 'vector' and cc == 'standard' and wanterr is None and all(_exists(w_) for w_ in want):
            # the same instants asked for as numpy datetime64 (UTC, whatever offset the reference date carries)
            try:
                import warnings as _w
                with _w.catch_warnings():
                    _w.simplefilter('ignore')
                    g64 = np.asarray(f.getTimes(datetype='datetime64[us]'))
                w64 = np.array([np.datetime64('%04d-%02d-%02dT%02d:%02d:%02d.%06d' % tuple(w_)) for w_ in want],
                               dtype='datetime64[us]')
                if g64.shape != w64.shape or not np.array_equal(g64.astype('datetime64[us]'), w64):
                    k_ = int(np.flatnonzero(g64.astype('datetime64[us]') != w64)[0]) if g64.shape == w64.shape else 0
                    vs.append(viol('instant-differs', ('getTimes', 'cf', 'datetime64'),
                                   '%s: as datetime64 element %d is %s, the file says %s' % (units, k_, g64.ravel()[k_], w64[k_]),
                                   **scope))
            except Exception as e:
                vs.append(viol('instant-differs', ('getTimes', 'cf', 'datetime64'), 'datetype=datetime64[us] raised %s: %r'
                               % (type(e).__name__, e), **scope))
        if not vs and mode in ('vector', 'bounds-var') and tdt == 'd' and len(want) >= 3 and wanterr is None:
            # the stored numbers are edited in place (interior values only: first, last, length, units and
            # calendar stay as they were) and decoded again: the answer follows the file, not an earlier decode
            try:
                if mode == 'vector':
                    tv[1:-1] = np.asarray(tv[1:-1]) + 0.25
                    enc2 = np.asarray(tv[:], 'd')
                else:
                    tb[1:-1, :] = np.asarray(tb[1:-1, :]) + 0.25
                    enc2 = np.append(np.asarray(tb[:, 0], 'd'), float(tb[-1, 1]))
                    # (the edges of neighbouring cells no longer meet; the closing edge of every cell but the
                    # last is not returned, so only begins + the last end are compared)
                want2 = [rtime.cf_decode(float(v), unit, refx, cal) for v in enc2]
                if not all(_exists(w_) for w_ in want2):
                    # the edited numbers name a date of the 365/366-day calendar that no python datetime can hold
                    # (30 February): raising is an accepted outcome there, as in the first decode
                    raise StopIteration
                got2 = [rtime.tuple_of(t) for t in f.getTimes(bounds=mode.startswith('bounds'))]
                if got2 != want2:
                    k_ = next(i for i, (a_, b_) in enumerate(zip(got2, want2)) if a_ != b_) if len(got2) == len(want2) else -1
                    vs.append(viol('stale-after-edit', sig, '%s: after editing the stored numbers in place element %d '
                                   'decodes to %r, the file says %r' % (units, k_, got2[k_] if k_ >= 0 else len(got2),
                                                                        want2[k_] if k_ >= 0 else len(want2)), **scope))
            except StopIteration:
                pass
            except Exception as e:
                vs.append(viol('stale-after-edit', sig, 'decoding after an in-place edit raised %s: %r'
                               % (type(e).__name__, e), **scope))
        return result('viol' if vs else 'ok-cf', vs, st, 1, h64('cf', units, case.get('calspell', cal), mode, tdt),
                      h64(repr(gott)) if not vs else None)

    def run_tflag(self, case):
        P = lib.pnc()
        y, hh = case['year'], case['hhmmss']
        ndays = rtime.year_days(y)
        dates = np.array([y * 1000 + j for j in range(1, ndays + 1)], dtype='i')
        want = [rtime.tuple_of(rtime.ioapi_instant(d, hh)) for d in dates]
        vs = []
        st = [h64('tflag', y, hh, case['branch'])]
        scope = dict(part='tflag', branch=case['branch'], hhmmss=hh)
        if case['branch'] == 'TFLAG':
            f = P.PseudoNetCDFFile()
            f.createDimension('TSTEP', ndays)
            f.createDimension('VAR', 1)
            f.createDimension('DATE-TIME', 2)
            tf = f.createVariable('TFLAG', 'i', ('TSTEP', 'VAR', 'DATE-TIME'))
            tf[:, 0, 0] = dates
            tf[:, 0, 1] = hh
            try:
                got = [rtime.tuple_of(t) for t in f.getTimes()]
            except Exception as e:
                return result('raised', [], st, 1, None, h64(type(e).__name__))
            # decoding is a query: a second call on the same object must decode the same instants
            try:
                again = [rtime.tuple_of(t) for t in f.getTimes()]
            except Exception as e:
                again = repr(e)
            if again != got:
                k = next((i for i in range(len(got)) if isinstance(again, str) or again[i] != got[i]), 0)
                vs.append(viol('second-call-differs', ('getTimes', 'TFLAG'),
                               'first call %r, second call on the same file %r' % (
                                   got[k], again if isinstance(again, str) else again[k]), **scope))
            bad = [(int(d), g, w) for d, g, w in zip(dates, got, want) if g != w]
            if bad or len(got) != len(want):
                vs.append(viol('instant-differs', ('getTimes', 'TFLAG'),
                               '%d of %d days differ, e.g. %r -> %r expected %r'
                               % (len(bad), len(want), bad[0][0] if bad else None,
                                  bad[0][1] if bad else None, bad[0][2] if bad else None), **scope))
            ntrans = 1
        else:
            ntrans = 0
            bad = []
            for d, w in zip(dates[::3], want[::3]):
                f = P.PseudoNetCDFFile()
                f.createDimension('TSTEP', 1)
                f.SDATE = int(d)
                f.STIME = int(hh)
                f.TSTEP = 10000
                ntrans += 1
                try:
                    g = [rtime.tuple_of(t) for t in f.getTimes()]
                except Exception:
                    continue
                if g != [w]:
                    bad.append((int(d), g, w))
            if bad:
                vs.append(viol('instant-differs', ('getTimes', 'SDATE-STIME'),
                               '%d starts differ, e.g. %r -> %r expected %r'
                               % (len(bad), bad[0][0], bad[0][1], bad[0][2]), **scope))
        return result('viol' if vs else 'ok-tflag', vs, st, ntrans,
                      h64('tflag', y, hh, case['branch']), h64(y, hh) if not vs else None)

    def run_ioapi(self, case):
        P = lib.pnc()
        sdate, stime = ioapi_u.STARTS[case['start']]
        ts, nt, form = case['tstep'], case['nt'], case['form']
        want = [rtime.tuple_of(t) for t in rtime.ioapi_times(sdate, stime, ts, nt)]
        vs = []
        st = [h64('ioapi', sdate, stime, ts, nt, form)]
        scope = dict(part='ioapi', form=form, tstep=ts, nt=nt, big_tstep=bool(ts >= 1000000),
                     stime_has_minutes=bool(stime % 10000))
        sig = ('getTimes', form)
        try:
            if form == 'cf-from-attrs':
                f = P.PseudoNetCDFFile()
                f.createDimension('TSTEP', nt)
                f.SDATE, f.STIME, f.TSTEP = sdate, stime, ts
                pre = [rtime.tuple_of(t) for t in f.getTimes()]
                if pre != want:
                    vs.append(viol('instant-differs', ('getTimes', 'SDATE-STIME-TSTEP'),
                                   'attribute branch: %r expected %r' % (pre, want), **scope))
                from PseudoNetCDF.conventions.ioapi._ioapi import add_time_variables
                add_time_variables(f)
            else:
                f = ioapi_u.build(ioapi_u.recipe(nt=nt, nl=1, nr=1, nc=1, nv=1, start=case['start'],
                                                 tstep=ts))
                tf = np.asarray(f.variables['TFLAG'][...])[:, 0, :]
                enc = [rtime.tuple_of(rtime.ioapi_instant(int(a), int(b))) for a, b in tf]
                if enc != want:
                    vs.append(viol('tflag-differs', ('updatetflag', form),
                                   'TFLAG encodes %r expected %r' % (enc, want), **scope))
                if form == 'cf-from-tflag':
                    from PseudoNetCDF.conventions.ioapi._ioapi import add_time_variables
                    add_time_variables(f)
            got = [rtime.tuple_of(t) for t in f.getTimes()]
            if got != want:
                vs.append(viol('instant-differs', sig, 'getTimes %r expected %r' % (got, want), **scope))
            again = [rtime.tuple_of(t) for t in f.getTimes()]
            if again != got:
                vs.append(viol('second-call-differs', sig, 'first call %r, second call on the same file %r'
                               % (got, again), **scope))
            if True:
                gb = [rtime.tuple_of(t) for t in f.getTimes(bounds=True)]
                wb = want + [rtime.tuple_of(rtime.ioapi_times(sdate, stime, ts, nt + 1)[-1])]
                if gb != wb:
                    vs.append(viol('bounds-differ', sig, 'getTimes(bounds=True) %r expected %r' % (gb, wb),
                                   **scope))
        except ImportError:
            raise
        except Exception as e:
            if vs:
                return result('viol', vs, st)
            return result('raised', [], st, 1, None, h64(type(e).__name__))
        return result('viol' if vs else 'ok-ioapi', vs, st, 2,
                      h64('ioapi', sdate, stime, ts, nt, form) if (nt > 1 or form != 'ioapi_base') else None,
                      h64(repr(want)) if not vs else None)


def _exists(t):
    try:
        datetime.datetime(*t)
        return True
    except Exception:
        return False
