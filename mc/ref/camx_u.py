"""The binary universe F (DESIGN section 3): recipes for reference-encoded CAMx
files.  Descriptors are small JSON-able dicts; materialize() expands them into
full recipes (with arrays) for the encoders of rfortran.  No PseudoNetCDF import."""
import itertools

import numpy as np

from . import rfortran as rf

STARTS = [(2019182, 12), (1970001, 0), (1999365, 23), (2000059, 23), (2000366, 23), (2069365, 23),
          (2000060, 22), (2004366, 22)]
PAYLOADS = ['ramp', 'zero', 'negzero', 'one', 'denorm', 'tiny', 'huge', 'neg']
NAMES = ['AVERAGE', 'EMISSIONS', 'AIRQUALITY', 'INSTANT']
SPECIES = [['O3'], ['O3', 'NO2'], ['O', 'NO2', 'ABCDEFGHIJ'], ['NO', 'NO_2'], ['O3', 'O', 'NO2', 'NO']]
SHAPES = [(nx, ny, nz) for nx in (1, 2, 3) for ny in (1, 2, 3) for nz in (1, 2, 3)]
GRID2 = dict(plon=-100., plat=45., iutm=0, xorg=-24., yorg=12., delx=4., dely=2., iproj=2, istag=0,
             tlat1=30., tlat2=60.)
# UTM grids (projection code 1): zone 15 north, zone 19 south (negative zone number)
GRIDS = [GRID2,
         dict(GRID2, iproj=1, iutm=15, plon=0., plat=0., tlat1=0., tlat2=0., xorg=500., yorg=4000.),
         dict(GRID2, iproj=1, iutm=-19, plon=0., plat=0., tlat1=0., tlat2=0., xorg=300., yorg=6000.)]
FORMATS = ('uamiv', 'lateral_boundary', 'humidity', 'vertical_diffusivity', 'one3d', 'temperature',
           'height_pressure', 'wind', 'cloud_rain')
MET = ('humidity', 'vertical_diffusivity', 'one3d', 'temperature', 'height_pressure', 'wind', 'cloud_rain')
CLDHDRS = ['CAMx_V4.3 CLOUD_RAIN', 'CAMx_V6.5 CLOUD_RAIN', 'CAMx_V6 CLOUD_RAIN  ', ' CAMx CLOUD_RAIN v7  ']


def field(kind, shape, base):
    n = int(np.prod(shape))
    if kind == 'ramp':
        a = base + np.arange(n, dtype='d')
    else:
        v = {'zero': 0.0, 'negzero': -0.0, 'one': 1.0, 'denorm': 1.401298464324817e-45,
             'tiny': 1.17549435e-38, 'huge': 3.4028235e38, 'neg': -1.5}[kind]
        a = np.full(n, v, dtype='d')
        # keep cells distinguishable where the alphabet allows it
        if kind in ('one', 'neg'):
            a = a + np.arange(n) * (0.25 if kind == 'one' else -0.25)
    return a.astype('f4').reshape(shape)


def base_desc(fmt):
    return {'fmt': fmt, 'spc': 1, 'shape': [3, 2, 2], 'nsteps': 2, 'start': 0, 'payload': 'ramp', 'name': 0}


def descs(fmt, tier):
    """list of descriptors, simplest first.  quick: one-factor-at-a-time plus all
    (start x nsteps); thorough: the full product for uamiv, wide products elsewhere"""
    out = []
    seen = set()

    def add(**kw):
        d = base_desc(fmt)
        d.update(kw)
        if fmt != 'uamiv':
            d['name'] = 0
        if fmt in MET:
            d['spc'] = 0
        k = repr(sorted(d.items()))
        if k not in seen:
            seen.add(k)
            out.append(d)
    add()
    if tier == 'quick':
        for sh in SHAPES:
            add(shape=list(sh))
        for si in range(len(STARTS)):
            for n in (1, 2, 3):
                add(start=si, nsteps=n)
        for p in PAYLOADS:
            add(payload=p)
        for sp in range(len(SPECIES)):
            add(spc=sp)
            add(spc=sp, shape=[2, 3, 1], nsteps=3)
        for nm in range(len(NAMES)):
            add(name=nm)
            add(name=nm, shape=[2, 2, 1], nsteps=1)
        extras(fmt, add)
        return out
    shapes = SHAPES if fmt == 'uamiv' else [s for s in SHAPES if 1 in s or s == (3, 2, 2) or s == (2, 3, 3)]
    for sh in shapes:
        for si in range(len(STARTS)):
            for n in (1, 2, 3):
                for p in (PAYLOADS if sh in ((3, 2, 2), (1, 1, 1), (2, 1, 3)) else ['ramp', 'negzero']):
                    for sp in (range(len(SPECIES)) if fmt not in MET else [0]):
                        for nm in (range(len(NAMES)) if fmt == 'uamiv' and sh[2] <= 2 else [0]):
                            add(shape=list(sh), start=si, nsteps=n, payload=p, spc=sp, name=nm)
    extras(fmt, add)
    return out


def extras(fmt, add):
    """format-specific header variants and longer files"""
    for n in (4, 5):
        add(nsteps=n)
        add(nsteps=n, start=2)
    # many steps on a very small grid (step-count arithmetic that is only nearly right shows here first)
    add(nsteps=12, shape=[1, 2, 1])
    add(nsteps=9, shape=[2, 2, 1])
    add(nsteps=13, shape=[2, 2, 2])
    # many layers (more records per time step than any block size a reader might scan by)
    add(nsteps=2, shape=[2, 1, 64])
    add(nsteps=2, shape=[1, 2, 71])
    if fmt in ('uamiv', 'lateral_boundary'):
        # hour-24 stamping of steps that end at midnight
        for n in (1, 2, 3):
            add(nsteps=n, start=6, end24=True)
            add(nsteps=n, start=2, end24=True)
    if fmt in ('uamiv', 'lateral_boundary'):
        for gv in (1, 2):
            add(gridv=gv)
            add(gridv=gv, nsteps=2, shape=[2, 3, 1])
    if fmt == 'uamiv':
        # 2-D files whose grid header carries nz = 0 (usual for low-level emissions)
        for n in (1, 2, 3):
            add(name=NAMES.index('EMISSIONS'), shape=[3, 2, 1], nsteps=n, hdr_nz0=True)
            add(name=NAMES.index('EMISSIONS'), shape=[2, 3, 1], nsteps=n, hdr_nz0=True, spc=2)
    if fmt == 'cloud_rain':
        # files older than CAMx 4.3 hold three variables per layer (cloud, precip, optical depth)
        for n in (1, 2, 3):
            add(nsteps=n, crv3=True)
            add(nsteps=n, crv3=True, shape=[2, 2, 1])
            add(nsteps=n, crv3=True, shape=[2, 3, 3])
        add(cldhdr=1)
        add(cldhdr=1, nsteps=1)
        # descriptors padded with blanks (a Fortran character*20 field)
        add(cldhdr=2)
        add(cldhdr=3, nsteps=1)
    if fmt in MET:
        # files that run over New Year with two steps before midnight
        for n in (3, 4):
            add(nsteps=n, start=7)
        # daily files: consecutive steps carry the same hour and differ in the date only
        for n in (2, 3):
            add(nsteps=n, daily=True)
            add(nsteps=n, daily=True, start=2)
            add(nsteps=n, daily=True, start=4, shape=[2, 2, 1])
    if fmt == 'wind':
        # staggered winds (flag 1 in the time header)
        for n in (1, 2):
            add(nsteps=n, lstagger=1)
        # older 8-byte time header without the staggering flag
        for n in (1, 2, 3, 4, 5):
            add(nsteps=n, hdr8=True)
            add(nsteps=n, hdr8=True, shape=[2, 2, 1])


def hhmm(hour):
    return float(hour * 100)


def materialize(d):
    fmt = d['fmt']
    nx, ny, nz = d['shape']
    start, hour = STARTS[d['start']]
    n = d['nsteps']
    steps = rf.steps_for(start, hour, n, 'h24' if d.get('end24') else 'next')
    r = {'fmt': fmt, 'nx': nx, 'ny': ny, 'nz': nz, 'steps': steps, 'start': (start, hour),
         'end24': bool(d.get('end24'))}
    # the true instants (YYYYJJJ, hour) of every step begin and end
    inst = []
    dd, hh = start, hour
    for i in range(n + 1):
        inst.append((dd, hh))
        dd, hh = rf.add_hours(dd, hh, 24 if d.get('daily') else 1)
    r['instants'] = inst
    p = d['payload']
    if fmt in ('uamiv', 'lateral_boundary'):
        r['species'] = list(SPECIES[d['spc']])
        r['name'] = NAMES[d['name']] if fmt == 'uamiv' else 'BOUNDARY'
        r['note'] = 'reference note %d' % d['spc']
        r['itzon'] = 6
        r['grid'] = dict(GRIDS[d.get('gridv', 0)])
        if d.get('hdr_nz0'):
            r['hdr_nz'] = 0
        ns = len(r['species'])
        if fmt == 'uamiv':
            r['data'] = [[[field(p, (ny, nx), 10000 * t + 1000 * s + 100 * z) for z in range(nz)]
                          for s in range(ns)] for t in range(n)]
        else:
            r['data'] = [[[field(p, ((ny if e < 2 else nx), nz), 10000 * t + 1000 * s + 100 * e)
                           for e in range(4)] for s in range(ns)] for t in range(n)]
        return r
    r['times'] = [(hhmm(h), rf.yyjjj(dd_)) for dd_, h in inst[:n]]
    if d.get('subhourly'):
        # half-hourly output: HHMM stamps 0, 30, 100, 130, 200 on the start date
        r['times'] = [(v, r['times'][0][1]) for v in (0., 30., 100., 130., 200.)[:n]]
    mk = lambda off: [[field(p, (ny, nx), off + 10000 * t + 100 * z) for z in range(nz)] for t in range(n)]
    if fmt in ('humidity', 'vertical_diffusivity', 'one3d'):
        r['data'] = mk(0)
    elif fmt == 'temperature':
        r['data'] = mk(0)
        r['sfc'] = [field(p, (ny, nx), 500000 + 10000 * t) for t in range(n)]
    elif fmt == 'height_pressure':
        r['hght'] = mk(0)
        r['pres'] = mk(500000)
    elif fmt == 'wind':
        r['u'] = mk(0)
        r['v'] = mk(500000)
        r['lstagger'] = None if d.get('hdr8') else d.get('lstagger', 0)
    elif fmt == 'cloud_rain':
        r['crvars'] = list(rf.CR_VARS3 if d.get('crv3') else rf.CR_VARS5)
        r['cldhdr'] = CLDHDRS[d.get('cldhdr', 0)]
        for i, k in enumerate(r['crvars']):
            r[k] = mk(200000 * i)
    return r


def encode(r):
    return rf.CODECS[r['fmt']][0](r)


def norm_flag(flag):
    """(YYYYJJJ, 240000) and (next day, 0) denote the same instant: canonical form is the latter"""
    d, t = int(flag[0]), int(flag[1])
    if t == 240000:
        d2, _ = rf.add_hours(d, 23, 1)
        return (d2, 0)
    return (d, t)


def norm_step(step):
    """the same for a (begin date, begin hour, end date, end hour) record with 5-digit dates"""
    bd, bh, ed, eh = step
    if float(eh) == 24.0:
        yy = int(ed) // 1000
        full = (1900 + yy if yy >= 70 else 2000 + yy) * 1000 + int(ed) % 1000
        d2, _ = rf.add_hours(full, 23, 1)
        return (bd, float(bh), rf.yyjjj(d2), 0.0)
    return (bd, float(bh), ed, float(eh))


def expected_tflag(r):
    """(YYYYJJJ, HHMMSS) begin flags and end flags from the true instants"""
    def window(d):
        # the files carry two-digit years: 70-99 -> 1970-1999, 00-69 -> 2000-2069 (inherent)
        yy, jjj = divmod(d % 100000, 1000)
        return (1900 + yy if yy >= 70 else 2000 + yy) * 1000 + jjj
    b = [(window(d), h * 10000) for d, h in r['instants'][:-1]]
    e = [(window(d), h * 10000) for d, h in r['instants'][1:]]
    if r.get('end24'):
        # hour-24 stamping: a step that ends at midnight carries (its own day, 240000)
        e = [(bb[0], 240000) if (ee[1] == 0 and ee[0] != bb[0]) else ee for bb, ee in zip(b, e)]
    return b, e


# --------------------------------------------------------------------------
# land-use files (no time axis): descriptors {'fmt': 'landuse', 'style', 'others', 'shape': [nx, ny], 'payload'}

LU_STYLES = ('new11', 'new26', 'old')
LU_OTHERS = {'old': [[], ['TOPO']], 'new11': [[], ['LAI'], ['TOPO'], ['LAI', 'TOPO']],
             'new26': [[], ['LAI'], ['TOPO'], ['LAI', 'TOPO']]}


def landuse_descs(tier):
    out = []
    shapes = [(3, 2), (1, 1), (2, 2), (1, 3), (3, 1)] + ([(2, 3), (3, 3), (4, 2)] if tier == 'thorough' else [])
    pays = PAYLOADS if tier == 'thorough' else ['ramp', 'negzero', 'denorm']
    for style in LU_STYLES:
        for oth in LU_OTHERS[style]:
            for sh in shapes:
                for p in (pays if sh == (3, 2) else ['ramp']):
                    out.append({'fmt': 'landuse', 'style': style, 'others': list(oth), 'shape': list(sh),
                                'payload': p})
    return out


def materialize_landuse(d):
    nx, ny = d['shape']
    nland = 26 if d['style'] == 'new26' else 11
    r = {'fmt': 'landuse', 'style': 'old' if d['style'] == 'old' else 'new', 'nland': nland, 'nx': nx, 'ny': ny,
         'fland': field(d['payload'], (nland, ny, nx), 1),
         'others': [(k, field(d['payload'], (ny, nx), 5000 * (i + 1))) for i, k in enumerate(d['others'])]}
    return r
