#!/venv/bin/python
"""Run the repository's pinned test suite (guard off) on a source tree and
compare with /root/.vp/BASELINE.json stable_pass.  usage: baseline.py [repo_dir]"""
import json, os, subprocess, sys, tempfile
import xml.etree.ElementTree as ET
repo = sys.argv[1] if len(sys.argv) > 1 else '/repo'
base = json.load(open('/root/.vp/BASELINE.json'))
want = set(base['stable_pass'])
out = tempfile.mktemp(suffix='.xml', dir='/dev/shm')
env = dict(os.environ)
env.pop('PSEUDONETCDF_VERIF', None)
env['PYTHONPATH'] = os.path.join(repo, 'src')
p = subprocess.run(['/venv/bin/python', '-m', 'pytest', '-q', '-p', 'no:cacheprovider', '--timeout=900',
                    '--continue-on-collection-errors', '--junitxml=' + out], cwd=repo, env=env,
                   capture_output=True, text=True)
passed = set()
for tc in ET.parse(out).getroot().iter('testcase'):
    if not any(c.tag in ('failure', 'error', 'skipped') for c in tc):
        passed.add(tc.get('classname') + '::' + tc.get('name'))
os.unlink(out)
missing = sorted(want - passed)
print('baseline stable_pass=%d passed_now=%d missing=%d' % (len(want), len(passed & want), len(missing)))
for m in missing:
    print('  NOW FAILING:', m)
sys.exit(1 if missing else 0)
