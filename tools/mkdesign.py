#!/usr/bin/env python3
"""Regenerates the generated parts of DESIGN.md (between <!-- AUTO:x --> markers):
4.2 (what each check enumerates, from MANIFEST.json + last evidence), the seeded-change table (6),
the list of repaired defects and fix commits (7.1) and the open findings (7.2)."""
import json, glob, re, os, subprocess
ROOT = os.path.dirname(os.path.dirname(os.path.abspath(__file__)))
os.chdir(ROOT)


def sec42():
    m = json.load(open('MANIFEST.json'))
    txt = ''
    for c in m['checks']:
        pid = c['property_id']
        e = {}
        try:
            e = json.load(open(c['evidence_file']))
        except Exception:
            pass
        txt += "* **%s** (%s; %s) — %s *Technique:* %s." % (pid, c['engine'], c['level_claimed']['category'],
                                                           c['level_claimed']['text'], c['technique'])
        if c.get('level_note'):
            txt += " *Note:* %s." % c['level_note'].rstrip('.')
        if e:
            txt += " *Last %s run:* %s evaluations, %s states, %s transitions, %s distinct non-trivial." % (
                e.get('tier', 'recorded'), e.get('evaluations'), e.get('states'), e.get('transitions'),
                e.get('distinct_nontrivial'))
        txt += "\n"
    return txt


def seedtable():
    rows = ['| seed | file changed | what it needs to manifest | detected by | check strengthened |', '|---|---|---|---|---|']

    def key(p):
        a, b = p.split('/')[1].split('-')
        return (a, int(b))
    for mp in sorted(glob.glob('seeded/*/meta.json'), key=key):
        m = json.load(open(mp))
        sid = mp.split('/')[1]
        files = sorted(set(re.findall(r'^\+\+\+ b/src/PseudoNetCDF/(\S+)', open('seeded/%s/patch.diff' % sid).read(), re.M)))
        need = m['needs_to_manifest'].replace('|', '/')
        st = (m.get('check_strengthened') or '—').replace('|', '/')
        rows.append('| %s | `%s` | %s | %s | %s |' % (sid, ', '.join(files), need, ', '.join(m['detected_by']), st))
    n = len(rows) - 2
    missed = sum(1 for mp in glob.glob('seeded/*/meta.json') if json.load(open(mp)).get('check_strengthened'))
    head = ('%d changes are kept; %d of them were missed by the check as first written and led to the strengthening '
            'named in the last column.\n\n' % (n, missed))
    return head + '\n'.join(rows) + '\n'


def fixes():
    kf = json.load(open('known_findings.json'))['findings']
    log = subprocess.run(['git', '-C', '/repo', 'log', '--format=%h %s'], capture_output=True, text=True).stdout.strip().split('\n')
    fx = [l for l in log if l[8:].startswith('fix:')]
    byprop = {}
    for e in kf:
        if e['status'] != 'fixed':
            continue
        w = re.sub(r'^fixed: property=C\d+ ?', '', e['what'])
        byprop.setdefault(e['property'], []).append('  * %s — %s' % (e['id'], w))
    txt = '%d `fix:` commits in `/repo` (baseline 145/145 after each); %d fixed entries in `known_findings.json`.\n\n' % (
        len(fx), sum(len(v) for v in byprop.values()))
    for k in sorted(byprop):
        txt += '* **%s**\n%s\n' % (k, '\n'.join(byprop[k]))
    txt += '\nThe commits (newest first; `git -C /repo log`):\n\n' + '\n'.join('    %s' % l for l in fx) + '\n'
    return txt


def openf():
    kf = json.load(open('known_findings.json'))['findings']
    o = [e for e in kf if e['status'] != 'fixed']
    return '\n'.join('* **%s** (%s) — %s  \n  scope listed in `known_findings.json`: `%s`' % (
        e['id'], e['property'], e['what'], json.dumps(e.get('match'))) for e in o) + '\n'


def main():
    s = open('DESIGN.md').read()
    for tag, fn in (('4.2', sec42), ('seeds', seedtable), ('fixes', fixes), ('open', openf)):
        a, b = '<!-- AUTO:%s -->' % tag, '<!-- /AUTO:%s -->' % tag
        if a not in s:
            print('marker missing', tag)
            continue
        i, j = s.index(a) + len(a), s.index(b)
        s = s[:i] + '\n' + fn() + s[j:]
    open('DESIGN.md', 'w').write(s)
    print('DESIGN.md regenerated')


main()
