"""Independent calendar arithmetic (pure integer / Fraction maths written from
the calendar definitions).  No PseudoNetCDF, no cftime, no strptime('%j')."""
import datetime
from fractions import Fraction

MDAYS = (31, 28, 31, 30, 31, 30, 31, 31, 30, 31, 30, 31)
GREG = ('standard', 'gregorian', 'proleptic_gregorian', None, '')
NOLEAP = ('noleap', '365_day')
ALLLEAP = ('all_leap', '366_day')


def is_leap(y, cal=None):
    if cal in NOLEAP:
        return False
    if cal in ALLLEAP:
        return True
    return (y % 4 == 0 and y % 100 != 0) or y % 400 == 0


def month_days(y, cal=None):
    md = list(MDAYS)
    if is_leap(y, cal):
        md[1] = 29
    return md


def year_days(y, cal=None):
    return 366 if is_leap(y, cal) else 365


def days_before_year(y, cal=None):
    """days from 0001-01-01 to y-01-01 in the calendar"""
    y1 = y - 1
    if cal in NOLEAP:
        return 365 * y1
    if cal in ALLLEAP:
        return 366 * y1
    return 365 * y1 + y1 // 4 - y1 // 100 + y1 // 400


def ymd_to_days(y, m, d, cal=None):
    n = days_before_year(y, cal)
    md = month_days(y, cal)
    if not (1 <= m <= 12 and 1 <= d <= md[m - 1]):
        raise ValueError('invalid date %r in calendar %r' % ((y, m, d), cal))
    return n + sum(md[:m - 1]) + (d - 1)


def days_to_ymd(n, cal=None):
    # find year
    if cal in NOLEAP:
        y = n // 365 + 1
    elif cal in ALLLEAP:
        y = n // 366 + 1
    else:
        y = n // 366 + 1
        while days_before_year(y + 1, cal) <= n:
            y += 1
    rem = n - days_before_year(y, cal)
    md = month_days(y, cal)
    m = 0
    while rem >= md[m]:
        rem -= md[m]
        m += 1
    return y, m + 1, rem + 1


US = {'days': 86400 * 10 ** 6, 'hours': 3600 * 10 ** 6, 'minutes': 60 * 10 ** 6,
      'seconds': 10 ** 6}


def cf_decode(num, unit, ref, cal=None):
    """instant encoded by `num` `unit` since ref=(y,m,d,H,M,S,us[,utcoffset_minutes])
    in calendar cal; returns (y,m,d,H,M,S,us) in UTC.  Exact (Fractions)."""
    y, m, d, H, M, S, us = ref[:7]
    off = ref[7] if len(ref) > 7 else 0
    base = (ymd_to_days(y, m, d, cal) * 86400 + H * 3600 + M * 60 + S - off * 60) * 10 ** 6 + us
    tot = Fraction(base) + Fraction(num) * US[unit]
    if tot.denominator != 1:
        # not a whole microsecond: round half even like timedelta does
        tot = Fraction(round(tot))
    tot = int(tot)
    days, rem = divmod(tot, 86400 * 10 ** 6)
    yy, mm, dd = days_to_ymd(days, cal)
    sec, us = divmod(rem, 10 ** 6)
    return (yy, mm, dd, sec // 3600, sec % 3600 // 60, sec % 60, us)


def jjj_to_md(y, jjj):
    md = month_days(y)
    if not 1 <= jjj <= sum(md):
        raise ValueError('invalid day of year %d for %d' % (jjj, y))
    m = 0
    r = jjj - 1
    while r >= md[m]:
        r -= md[m]
        m += 1
    return m + 1, r + 1


def hms(hhmmss):
    """HHMMSS integer (hours may exceed two digits) -> seconds"""
    hhmmss = int(hhmmss)
    sign = -1 if hhmmss < 0 else 1
    hhmmss = abs(hhmmss)
    return sign * ((hhmmss // 10000) * 3600 + (hhmmss % 10000 // 100) * 60 + hhmmss % 100)


def ioapi_instant(yyyyjjj, hhmmss):
    y, j = divmod(int(yyyyjjj), 1000)
    m, d = jjj_to_md(y, j)
    base = datetime.datetime(y, m, d)
    return base + datetime.timedelta(seconds=hms(hhmmss))


def ioapi_times(sdate, stime, tstep, n):
    t0 = ioapi_instant(sdate, stime)
    dt = datetime.timedelta(seconds=hms(tstep))
    return [t0 + k * dt for k in range(n)]


def to_ioapi(dt):
    y = dt.year
    jjj = ymd_to_days(y, dt.month, dt.day) - days_before_year(y) + 1
    return y * 1000 + jjj, dt.hour * 10000 + dt.minute * 100 + dt.second


def to_utc_naive(t):
    if getattr(t, 'tzinfo', None) is not None:
        t = t.astimezone(datetime.timezone.utc).replace(tzinfo=None)
    return t


def tuple_of(t):
    t = to_utc_naive(t)
    return (t.year, t.month, t.day, t.hour, t.minute, t.second, t.microsecond)
