"""C05 - isolation: inputs never modified, results never alias, closing is local.

(a,b) ride on the C01 explicit-state search (Engine B): every transition and a
menu of queries is executed with deep before/after snapshots of the receiver;
every result is then overwritten with sentinels and the receiver re-compared.
(c) Engine C enumerates all open/close/drop/gc schedules over disk files.
"""
import os

import numpy as np

from ..engine import core, bfs, report, sched
from ..engine.core import viol, h64
from ..ref import rfile
from .. import lib, ops
from . import c01


class Prop(c01.Prop):
    ID = 'C05'
    RULE = ('(a,b) same breadth-first search as C01 plus a query menu (repr, dump, save x2, val2idx x3, '
            'getTimes x2): a deep hash (raw buffers incl. bytes under masks, masks, fill values, attributes, '
            'dimensions, order) of the receiver is taken before and after every call, and again after every '
            'variable of the result was overwritten; (c) every sequence of open/close/drop/gc/read events up '
            'to the bound over 2-3 disk files is executed on the real netCDF library. Non-trivial = '
            'a transition producing a new state, or a schedule containing at least one close/drop/gc; distinct = '
            'distinct (state, call) pairs / distinct schedules')
    ASSUMPTIONS = c01.Prop.ASSUMPTIONS + [
        'garbage collection is an explicit event between library calls (automatic GC disabled); collection '
        'inside a library call is not explored',
        'the IOAPI wall-clock stamps (CDATE CTIME WDATE WTIME) are excluded from before/after comparison',
    ]

    def deep(self, f):
        return lib.deep_hash_nostamps(f)

    def step(self, state, seedrec, hist, op):
        cls = type(state).__name__
        sig = (op['op'], cls)
        scope = {'opname': op['op'], 'cls': cls, 'dom': op['dom']}
        vs = []
        before_canon = self.canon(state)
        before = self.deep(state)
        bsnap = lib.snap(state)
        ntrans = 1
        try:
            new = self.apply(state, op)
        except core.Timeout:
            raise
        except (Exception, SystemExit) as e:
            new = None     # completion is C01's business; C05 only watches the receiver
        try:
            after = self.deep(state)
        except core.Timeout:
            raise
        except Exception as e:
            # the receiver can no longer be read at all (e.g. its file handle was closed under it)
            vs.append(viol('receiver-unusable', sig, 'after the call the receiver cannot be read: %s: %r'
                           % (type(e).__name__, e), **scope))
            return {'op': op, 'hash': None, 'viol': vs, 'outcome': 'viol', 'trans': ntrans, 'nt': None,
                    'rebuild': True}
        rebuild = False
        if after != before:
            vs.append(viol('receiver-modified', sig,
                           '; '.join(lib.deep_diff(state, bsnap))[:1200] or 'raw buffers differ',
                           **scope))
            rebuild = True
        h = None
        if new is not None and new is not state and op['dom']:
            try:
                if not lib.wellformed(new):
                    h = self.canon(new)
            except Exception:
                h = None
        if new is not None and new is not state and not rebuild:
            # (b) write into every variable of the result
            try:
                nw = lib.scribble(new)
            except Exception:
                nw = 0
            ntrans += 1
            try:
                after2 = self.deep(state)
            except core.Timeout:
                raise
            except Exception as e:
                vs.append(viol('receiver-unusable', sig, 'after writing into the result the receiver cannot be '
                               'read: %s: %r' % (type(e).__name__, e), **scope))
                return {'op': op, 'hash': None, 'viol': vs, 'outcome': 'viol', 'trans': ntrans, 'nt': None,
                        'rebuild': True}
            if after2 != before:
                shared = []
                for k in list(new.variables.keys()):
                    try:
                        if k in state.variables and np.shares_memory(
                                np.ma.getdata(new.variables[k]), np.ma.getdata(state.variables[k][...])):
                            shared.append(k)
                    except Exception:
                        pass
                vs.append(viol('result-aliases-input', sig,
                               'writing into the result changed the source: %s (shares memory: %s)'
                               % ('; '.join(lib.deep_diff(state, bsnap))[:900], shared), **scope))
                rebuild = True
        return {'op': op, 'hash': h, 'viol': vs, 'outcome': 'viol' if vs else 'ok',
                'trans': ntrans, 'nt': h64(before_canon, op, h) if h not in (None, before_canon) else None,
                'rebuild': rebuild}

    def replay(self, doc):
        if 'schedule' in doc['case']:
            sp = sched.Prop()
            sp.tier = 'quick'
            sp.worker_init()
            return core.run_case_guarded(sp, doc['case'])
        return c01.Prop.replay(self, doc)

    def menu(self, state):
        m = ops.menu(state, full=True)
        for q in ops.queries(state):
            m.append(dict(q, op='query:' + q['q'] + (':' + q.get('method', q.get('format', ''))
                                                      if ('method' in q or 'format' in q) else '')
                          + (':bounds' if q.get('bounds') else ''), dom=True))
        return m

    def apply(self, state, op):
        if op['op'].startswith('query:'):
            ops.do_query(state, op, self.tmp)
            return None
        return ops.do_op(state, op)


def main(tier, seed, t0):
    prop, agg, extra, caps = bfs.explore(__name__, tier, seed)
    sagg, sextra, scaps = sched.explore(tier, seed)
    core.merge(agg, sagg)
    extra['schedules'] = sextra
    return report.finish(prop, agg, tier, seed, t0, extra_cov=extra, caps_hit=caps + scaps)
