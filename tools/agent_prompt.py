import json,sys,glob,re
pid=sys.argv[1]
n=sys.argv[2] if len(sys.argv)>2 else '3'
tag=sys.argv[3] if len(sys.argv)>3 else 'w2'
for l in open('/verif/properties.jsonl'):
    p=json.loads(l)
    if p['id']==pid: break
wt=f'/tmp/{tag}_{pid}'
avoid=[]
for mp in sorted(glob.glob('/verif/seeded/*/meta.json')):
    m=json.load(open(mp))
    if m['property']!=pid: continue
    sid=mp.split('/')[-2]
    diff=open(f'/verif/seeded/{sid}/patch.diff').read()
    files=sorted(set(re.findall(r'^\+\+\+ b/(\S+)', diff, re.M)))
    hunk=re.findall(r'^@@.*@@ ?(.*)$', diff, re.M)
    avoid.append(f"  - {', '.join(files)} ({'; '.join(h for h in hunk if h)[:80]}): {m['needs_to_manifest'][:160]}")
avoid_txt=''
if avoid:
    avoid_txt="\nALREADY TRIED by other people (choose DIFFERENT code sites and DIFFERENT mechanisms from all of these):\n"+'\n'.join(avoid)+"\n"
print(f"""You are helping test a verification effort for the Python library PseudoNetCDF (barronh/pseudonetcdf). Your job is to play the role of a developer who introduces a subtle, realistic bug.

Your private scratch copy of the repository is the git worktree at {wt} (library source under {wt}/src/PseudoNetCDF). Work ONLY inside {wt}. Do NOT read or modify /repo or /verif or any other directory under /tmp except /tmp/tools/baseline.py. Python is /venv/bin/python (3.12, numpy 2.x, netCDF4, scipy, cftime installed; no network, no pyproj). To run code against your copy always set PYTHONPATH={wt}/src (verify with `PYTHONPATH={wt}/src /venv/bin/python -c "import PseudoNetCDF; print(PseudoNetCDF.__file__)"`).

THE PROPERTY (a semantic property of the library that is supposed to hold):

  Title: {p['title']}
  Statement: {p['statement']}
  Quantified over: {p['quantifier']['text']}
  Code it is anchored in: {', '.join(p['anchors']['files'])}
{avoid_txt}
TASK: produce {n} DIFFERENT source changes (each independent of the others, each applied to a clean tree, each at a different code site / mechanism) to the library such that, for each change:
  1. The library still imports and the repository's existing test-suite baseline still passes. Check with: `/venv/bin/python /tmp/tools/baseline.py {wt}` (it runs pytest on your worktree, ~30 s, and must print `missing=0`; 23 tests fail even on the unchanged tree, that is expected and they are ignored).
  2. The change BREAKS the property above for some inputs.
  3. The breakage needs something SPECIFIC to manifest: a particular combination of arguments, an unusual-but-legitimate input (e.g. length-1 or unlimited dimension, masked data, negative index, a repeat, a date at a year/leap boundary, a particular step count), a multi-step sequence of operations, a cut/fault at a particular point, or two cooperating code sites that each look fine alone. It must NOT be something that ordinary everyday use (or the existing tests) would expose immediately, and must not be a crash on every call. Think of realistic slips: off-by-one in a stride or window, wrong axis, a dropped mask, view instead of copy, an in-place operator on shared data, stale cached/global state, a wrong rounding/format width, a condition that is wrong only at a boundary.
  4. Prefer changes inside the files the property is anchored in. Keep each change small (1-15 lines).

For each change i (1..{n}) write, under {wt}/_out/<i>/ :
  - patch.diff : output of `git -C {wt} diff` for that change alone (relative to the clean worktree HEAD; must apply with `git apply` to a clean tree)
  - demo.py    : a small standalone program that exercises the library through its public API and exits 0 when the property holds for its input and exits 1 (printing what went wrong) when it does not. It must exit 1 with your change applied and exit 0 on the clean tree. It must not depend on files outside the repository except temporary files it creates itself (use tempfile), and must build its inputs itself.
  - notes.md   : 5-10 lines: what was changed, why it breaks the property, exactly what is needed for it to manifest, and the commands you ran with their results (baseline result line; demo exit codes with and without the change).

After writing each change's artefacts, restore the worktree to clean (`git -C {wt} checkout -- .`) before starting the next one (NEVER use `git stash`: the stash is shared with other worktrees of this repository and other people are working in them; use `git apply -R` or `git checkout -- .`), and leave the worktree clean (apart from the untracked _out directory) when you finish. Never run a reader of a binary format without a timeout (some readers loop forever on odd input: wrap experiments in `timeout 60`). Actually verify everything you claim by running it. Your final message should list, per change, one line: the file/function changed and what it needs to manifest.""")
