#!/usr/bin/env python3
"""Regenerate /verif/MANIFEST.json from the table below (claimed checks are the
property drivers that exist in mc/props and are listed in CLAIMED)."""
import json
import os

ROOT = os.path.dirname(os.path.dirname(os.path.abspath(__file__)))

# id -> (engine, category, technique, level text, level note, design ref)
CLAIMED = {
    'C02': ('A', 'model_checking',
            'bounded-exhaustive enumeration of selector combinations on the real code vs reference slicer',
            'Every file of the small universe x every non-empty subset of <=2 (quick) / <=3 (thorough) '
            'dimensions x every per-axis selector combination (all ints in [-n,n), one spelling of every '
            'distinct slice result plus odd spellings, index lists incl. empty/repeats/negatives, both '
            'keyword orders) is executed on the real sliceDimensions and compared bit-for-bit with an '
            'independent per-axis numpy.take / pointwise reference; zipped index lists also as numpy arrays (one '
            'object shared by two dimensions) which must be unchanged afterwards; the string form slice_dim (also on a netCDF4.Dataset saved from the file, masks from _FillValue) and '
            'IOAPI files included. Exhaustive within the stated bounds.',
            'numpy is trusted; dimension lengths <=3; domain predicate of DESIGN 3.1 decides which '
            'raises are acceptable', 'DESIGN.md section 4 C02'),
    'C03': ('A', 'model_checking',
            'bounded-exhaustive enumeration of (dimension subset x function assignment) on the real code vs numpy/numpy.ma lane-wise reference',
            'Every file of the small universe x every non-empty dimension subset x every assignment of 7 named '
            'reducers and 10 1-D functions (length-changing, length-preserving, scalar-returning; plus the documented '
            'dict form with and without keyword options, incl. a required option that decides the output length) to those dimensions x '
            'both keyword orders is executed on the real applyAlongDimensions and compared with an independent '
            'one-primitive-per-axis numpy / numpy.ma reference (any application order accepted, loss of value on '
            'store rejected); commuting reducers are additionally run in both orders and compared.',
            'numpy / numpy.ma reductions are trusted; dimension lengths <=3; a 1-D function applied while another '
            'axis is empty is out of domain (numpy.apply_along_axis is undefined there)', 'DESIGN.md section 4 C03'),
    'C04': ('A', 'model_checking',
            'bounded-exhaustive enumeration of all compositions of each dimension into pieces and of ordered file tuples, on the real code',
            'Every file of the small universe x every dimension x every composition of its length (<=4 quick / <=5 '
            'thorough) into consecutive pieces, split by the reference slicer and by the library slicer, stacked through '
            'file.stack (in-memory and netCDF-backed pieces), legacy stack_files and on-disk pncmfopen, must reproduce the original (data, masks, '
            'dimension lengths and unlimited flags, attributes, variable order); slicing the stacked file at each '
            'piece extent must reproduce the piece; ordered pairs/triples (thorough: quadruples) of distinct files must equal '
            'numpy.concatenate in argument order; IOAPI files (gridded/boundary/masked/disk, 3-6 start instants, 2-5 steps) '
            'split along TSTEP into every composition and stacked again must reproduce data, TFLAG and SDATE/STIME/TSTEP; '
            'entry points: file.stack with a list / tuple / one-shot iterator of in-memory or netCDF-backed pieces, '
            'stack_files, pncmfopen, netcdf.open_mfdataset with a named and an auto-detected dimension; '
            'the list object handed to each stacking entry point must be unchanged afterwards.',
            'numpy.concatenate trusted; dimension order not compared; the disk form compares dims/data/masks only',
            'DESIGN.md section 4 C04'),
    'C01': ('B', 'model_checking',
            'explicit-state breadth-first search over operation sequences on real file objects (canonical-hash deduplication, history replay)',
            'BFS from 19 seed files (CF file with bounds variables, a variable carrying one dimension on two axes, small universe incl. masked/char/scalar/coordinate/unlimited, IOAPI gridded/boundary/'
            'disk-backed, netCDF-backed, CAMx and ICARTT reader outputs) under a state-derived menu of ~30 operation '
            'instances covering every public transformation, to depth 2 (quick) / 3 (thorough). Every state reached '
            'is checked for well-formedness (dimension names exist, shapes match, unlimited flags survive, IOAPI '
            'TSTEP unlimited, attributes retrievable) and every in-domain instance must complete; out-of-domain '
            'instances must raise or return a well-formed file.',
            'canonical form merges only states with equal futures (DESIGN 2.2); domain predicate per operation is '
            'computed from the state structure (DESIGN 3.1, convention-file restrictions in section 7)', 'DESIGN.md section 4 C01'),
    'C05': ('B', 'model_checking',
            'explicit-state BFS with deep before/after snapshots and write-through probes, plus exhaustive open/close/drop/gc schedule enumeration on real netCDF handles',
            '(a,b) the C01 breadth-first search (depth 2 quick / 3 thorough) with a query menu (repr, dump, save, '
            'val2idx x3, getTimes x2): a deep hash of the receiver (raw buffers incl. bytes under masks, masks, fill '
            'values, attributes, dimensions, order) is compared before/after every call and again after every '
            'variable of the result has been overwritten with sentinels. (c) every event sequence of length 6/5 '
            '(quick) or 8/6 (thorough) over 2/3 disk files with events open, close (repeatable), drop-reference, gc, '
            'for the netcdf, ioapi and auto-detected readers, is executed on the real C library; after every event '
            'each file the reference model says is open must return its own data.',
            'automatic GC disabled, gc is an explicit event; numpy lazily casts fill values (compared after casting '
            'to the variable dtype); IOAPI wall-clock stamps excluded', 'DESIGN.md section 4 C05'),
    'C10': ('B', 'model_checking',
            'explicit-state breadth-first search over IOAPI operation sequences with the coherence invariant evaluated in every state',
            'BFS from 10 IOAPI seeds (gridded, 1x1x1x1, boundary, masked, disk-backed, 16-character name, a disk file '
            'whose VAR-LIST lost its trailing blanks (set-up state), GRIDDESC with and without CF variables, dates '
            'beyond 2038) under a ~60-instance menu (copy with and without data, slice int/slice/list on every (boolean mask on TSTEP) '
            'standard dimension, the short names f.slice/f.subset/f.apply, subset, subset-exclude, renameVariable(s), '
            'a variable added by hand (set-up), eval, apply mean/max/diff/reverse/demean on every standard dimension, '
            'mask, stack in time, interpSigma linear/conserve, +) to depth 2 (quick) / 4 (thorough); every reached state must '
            'satisfy all coherence clauses of the statement and every in-domain instance must complete.',
            'clauses are exactly the statement; operations leaving the IOAPI data model are out of domain and not '
            'explored (DESIGN section 7)', 'DESIGN.md section 4 C10'),
    'C11': ('A', 'model_checking',
            'bounded-exhaustive enumeration of window combinations over ROW/COL/LAY/TSTEP on the real IOAPI slicer vs independent origin/level/calendar arithmetic',
            'Every IOAPI file of the universe (shapes up to 3x3x3x3, start instants crossing year end, leap day and '
            'midnight, TSTEP 7.5 min / 30 min / 1 h / 24 h / 100 h / 168 h, unevenly spaced flags, sources with a hand-added '
            'variable or without TFLAG) x every combination of contiguous windows given as positive int, negative '
            'int, numpy integer or any unit-stride slice spelling (incl. a negative start beyond the first cell) over '
            '1-2 (quick) / 1-4 (thorough) dimensions, plus strided TSTEP windows: XORIG/YORIG must move by first-index '
            'x cell size exactly (and not be shared with the source), VGLVLS must be the bit-identical sub-range, '
            'decoded times must be the sub-range of independently computed instants, SDATE/STIME the first of them, '
            'TSTEP unchanged (stride x step for a strided window).',
            'dyadic cell sizes (exact float arithmetic); calendar arithmetic in mc/ref/rtime.py is independent of the library',
            'DESIGN.md section 4 C11'),
    'C12': ('A', 'model_checking',
            'bounded-exhaustive enumeration of time encodings decoded by the real code vs independent calendar arithmetic (and cftime)',
            'CF: 4 units x 14 accepted reference-date spellings (date, hour, minute, second precision; UTC, Z, +0000 and '
            'numeric offsets) x 4/6 reference instants x 8 calendars x {12-offset vector, single value, explicit '
            'time_bounds, approximated bounds}; decode must equal exact Fraction arithmetic in the calendar, and '
            'date2num/time2idx must invert it. IOAPI: every day of 4/7 years x 6 times of day as TFLAG and as '
            'SDATE/STIME attributes; 7 start instants (incl. one beyond 19 Jan 2038) x 6 TSTEP values (1 s .. 168 h) x '
            '1-3 steps through '
            'ioapi_base/updatetflag and through CF time synthesised from TFLAG and from attributes, incl. bounds.',
            'a raise is an accepted outcome; cftime is a second reference only where it parses the unit string',
            'DESIGN.md section 4 C12'),
    'C16': ('A', 'model_checking',
            'bounded-exhaustive enumeration of coordinates x bounds representations x options x query points on the real val2idx vs brute-force cell search',
            'Every strictly monotone coordinate of length 2-4 over {0,1,2,4,7} in both directions x {no bounds, 1-D '
            'edges, n x 2 bounds} x {nearest, bounds, exact} x clean {none, mask} x bounds {ignore, warn, error} x '
            'left/right {None, nan}, queried at every centre, edge and midpoint and 1e-6 either side of each, plus '
            'far outside points; in-range, far-out and near-out queries in separate calls. Expected cells by brute '
            'force; out-of-range handling must be as requested; the coordinate variable must be unchanged. Datetime '
            'front-ends (time2idx/date2num) on ascending/descending CF time coordinates with UTC, naive and '
            'offset-aware datetimes.',
            'closed cells, ties accept either neighbour; without a bounds variable the outer half cells are judged '
            'only for uniformly spaced coordinates', 'DESIGN.md section 4 C16'),
    'C06': ('A', 'model_checking',
            'bounded-exhaustive enumeration of operand dtypes/masks/operators, eval programs and mask predicate subsets on the real code vs numpy evaluation',
            'Operators: every (left dtype, right dtype) over 4 (quick) / 6 (thorough) dtypes x 4 mask configurations x '
            '13 operators x 2-3 array shapes with operands holding all 81 value pairs of an adversarial alphabet '
            '(zero, +-1, halves, 1e30, 1e-30, integer extremes): result must equal numpy on the raw data with operand '
            'masks united and non-finite cells masked; coordinate variables must come unchanged from the left operand. '
            'a right operand broadcast along a length-1 dimension (masks included). eval: 14 programs x copyall. mask: '
            'all 256 predicate subsets x dims given/omitted x coords flag with fractional thresholds, on float, signed '
            'and unsigned integer variables and on cells within 5e-6 of the equal/values thresholds.',
            'numpy is the reference for elementwise arithmetic; +-0 not distinguished; integer division by zero '
            'cells not compared', 'DESIGN.md section 4 C06'),
    'C07': ('A', 'model_checking',
            'bounded-exhaustive enumeration of (file kind, flavour, compression, writer, process history) saved by the real writer and re-read through libnetcdf',
            'Four file kinds (every representable dtype incl. char and scalar; masked variables whose fill comes from '
            'fill_value / missing_value / _FillValue with fills -999, -5, 1e20, 0 and a fully masked variable, a masked '
            'variable named after its dimension, nan/inf in valid cells; every '
            'attribute value type; dimension/variable order with a mid-position and a second unlimited dimension) x '
            '4 netCDF flavours x complevel 0/1 x 3 writer entry points x with/without a compressed save earlier in the '
            'process, plus a generated grid: every representable dtype x {unmasked, masked with pattern one/all/none/'
            'first/last} x fill source x 2-4 fill values per dtype x record length 2/1/0, one variable per dimension '
            'shape incl. scalars (196 files quick / 1.2 k thorough, x flavours x complevel x writers in thorough), '
            'are saved and reopened; dimensions (names, order, lengths, unlimited), attributes (names, values, '
            'type kind), variables (names, order, dtypes, dimension tuples, masks, bit-identical unmasked data) are compared.',
            'libnetcdf/netCDF4 trusted for on-disk truth; 1-element array attributes == scalars; _FillValue reserved',
            'DESIGN.md section 4 C07'),
    'C17': ('A', 'model_checking',
            'bounded-exhaustive enumeration of source/target coordinate pairs and sigma-grid pairs on the real weight/coefficient functions, checked against algebraic laws',
            'getinterpweights for every pair of strictly monotone source (2-4 levels, both directions) and target (1-4 '
            'levels) vectors over {0,1,2,4,7,8} with extrapolation on/off: non-negativity, partition of unity, exact '
            'reproduction of three linear profiles, edge continuation, identity; the same through interpDimension along '
            'each dimension and through interpvars. sigma2coeff and ioapi interpSigma(conserve) for all 32x32 ordered '
            'pairs of sigma grids over dyadic levels: fractions in [0,1], every source layer partitioned, target '
            'thickness reproduced, column integral conserved, constant field constant.',
            'relative tolerance 1e-12 (float64 laws), 1e-6 through float32 IOAPI data', 'DESIGN.md section 4 C17'),
    'C19': ('A', 'model_checking',
            'bounded-exhaustive enumeration of small ICARTT tables/headers written by the real writer, parsed by an independent parser and re-read by the real reader',
            'Every (1-3 records, 1-3 dependent variables, rotation of a 6-value magnitude alphabet 1e-30..1e30, 4 '
            'missing codes, 3 mask patterns, 8 header-comment subsets, independent-variable units given/omitted, '
            'source built by hand with missing_value / with fill value only / read from independently rendered text; '
            'one missing code for all variables or one per variable; source variables with a scale attribute; 99-101+ '
            'header lines; integer time column; a masked independent variable): '
            'the written text is parsed by an independent FFI-1001 parser (declared header-line and variable counts '
            '== actual), re-read by ffi1001 and by auto-detection (names/order, units, missing codes, masks, values '
            'to 7 significant digits) and a second write/read cycle must change no data.',
            'independent parser written from the header grammar; normal-comment count line not judged',
            'DESIGN.md section 4 C19'),
    'C20': ('A', 'model_checking',
            'bounded-exhaustive enumeration of small fields over an adversarial power-of-two alphabet packed/unpacked by the real code, plus reference-encoded ARL files',
            'Every assignment of an 18-value alphabet (0, +-1, 2^k and its float32 neighbours for k in {-3,0,4,15}, '
            '1e-30, 1e30, 255.5*2^-7) to the cells of 1x2, 1x3 and 2x2 fields (quick; thorough adds 2x3, constants and '
            'long ramps, 0.78 M fields): unpack(pack(x)) and an independent serial decoder must stay within '
            '2**(NEXP-7), first element exact, checksum equal to the rotating byte sum, PREC = 2**NEXP/254. '
            'Reference-encoded lat/lon ARL files (1-3 times crossing a year, 1-2 levels with 6-significant-character '
            'heights, 1-2 surface/upper variables, 3 field patterns) are read by arlpackedbit (variables, levels, '
            'times, fields, auto-detection) and re-written by writearlpackedbit, whose output is decoded by an '
            'independent reader; levels below 0.1, per-level variable lists, grids of 1000+ points and surface '
            'fields whose exponent changes between time records included.',
            'serial reference with float32 emulation; projected grids (pyproj) out of scope', 'DESIGN.md section 4 C20'),
    'C08': ('A', 'model_checking',
            'bounded-exhaustive enumeration of generated CAMx files through read/write/read/write on the real code',
            'Every descriptor of the binary universe (10 formats incl. cloud/rain in its 3- and 5-variable flavours and '
            'land-use in old / LUCAT11 / LUCAT26 style with every combination of optional LAI/TOPO records; species '
            'sets, all grid shapes up to 3x3x3, 1-5 steps, 7 start instants crossing day/year/leap-day/century, 8 '
            'payload kinds incl. -0.0, denormal and float32 max, 4 NAME variants, nz=0 headers, 8-byte wind headers; '
            '651 files quick, ~27 k thorough) is reference-encoded, read, written, re-read and written again: second '
            'read == first read bit for bit (data, TFLAG/ETFLAG, species order, grid header), second write '
            'byte-identical to the first, time flags == encoded instants; the same content built in memory '
            '(non-contiguous arrays, no ETFLAG) is written, read back == source, and rewritten byte-identically.',
            'starts from reference-encoded files and from hand-built in-memory files', 'DESIGN.md section 4 C08'),
    'C09': ('A', 'model_checking',
            'bounded-exhaustive enumeration of generated files through an independent struct-level codec in both directions',
            'Same universe as C08. Direction 1: every reference-encoded file (also little-endian for uamiv) is read '
            'by the library and compared with the generating recipe (dimensions, species order, float data bit for '
            'bit, TFLAG/ETFLAG instants, grid and file header). Direction 2: library writer output (from the reader '
            'object and from hand-built in-memory files without ETFLAG / edge definitions and with non-contiguous '
            'arrays) is walked by an independent record parser (marker agreement, exact tiling, header counts) and '
            'decoded back to the recipe; the file must be complete when the writer returns.',
            'layouts of DESIGN Appendix A, validated byte-exactly against every bundled sample at worker start-up',
            'DESIGN.md section 4 C09'),
    'C13': ('A', 'model_checking',
            'bounded-exhaustive enumeration of generated files opened by both reader families on the real code',
            'Every descriptor of the universe for the 7 formats with both reader families is opened with the '
            'memory-mapped and the record reader on the same path; a file whose constructor raises in either reader '
            'is outside the quantifier; the dimensions both expose are compared as soon as both constructors have '
            'returned, then the common variables bit for bit (up to length-1 axes); the same path is then rewritten '
            'with a sibling file and both readers are opened again; species lists incl. names that are prefixes of '
            'earlier ones; a 5 s watchdog turns non-termination into a violation.',
            'only what both readers define is compared (record readers define no TFLAG); the deprecated '
            'calendar arithmetic of the record readers is listed as known findings KF-C13-5..9', 'DESIGN.md section 4 C13'),
    'C14': ('D', 'fault_enumeration',
            'exhaustive crash-point enumeration: every byte prefix of every generated file opened by the real readers',
            'For ~70 (quick) / ~300 (thorough) generated files of 11 formats (incl. cloud/rain, land-use and GEOS-Chem '
            'binary punch files with averaged and instantaneous stamps; hour-24 end stamps; half-hourly HHMM stamps from midnight) EVERY '
            'proper byte prefix (58 k / ~300 k cuts; '
            'uamiv and lateral_boundary also in update mode r+) is opened with the memory-mapped reader and fully '
            'read: the outcome must be an exception or only complete steps bit-identical to the full file, same '
            'non-time dimensions; for the header-less met formats a cut on a record boundary inside the first step is a '
            'valid shorter file and must show exactly those layers; a prefix that the reference decoder reads, with no '
            'byte left over, as a complete land-use file or as a complete cloud/rain file of the other (3-variable) '
            'flavour must be shown as exactly that file. Each read runs under a 0.5 s alarm.',
            'step completeness = all data records of the step present; bpch not generated (readers unusable under numpy 2)',
            'DESIGN.md section 4 C14'),
    'C18': ('A', 'model_checking',
            'bounded-exhaustive enumeration of reference-encoded bpch files and tables through both real readers and the real writer',
            'Every (1-3 time blocks, 1-2 categories, 1-2 tracers each, 4 per-tracer layer patterns, 3 nested-grid '
            'offsets incl. a vertical one, complete / incomplete tracerinfo) is reference-encoded with its tables: '
            'unscaled read bit-identical and its rewrite byte-identical; scaled read = raw x table scale with the '
            'table unit; time/time_bounds/tau0/tau1 equal the block headers and the category/tracerid attributes the '
            'header identifiers for both readers and for the written file; scaled write/read preserves data, '
            'category/tracer ids, offsets and grid header, leaves the source object unchanged (also for an in-memory '
            'copy) and is repeatable; bpch2 must present the same data as bpch1 and its unscaled read written back '
            'must reproduce the bytes; the master class bpch(...) must equal the reader it delegates to. Sub-hourly '
            'and instantaneous blocks, 4 header-flag combinations.',
            'bpch layout of DESIGN Appendix A (sample reproduced byte for byte); scaled data to 1e-6 relative',
            'DESIGN.md section 4 C18'),
    'C15': ('B-fork', 'model_checking',
            'exhaustive enumeration of open histories, each executed in a freshly forked pristine process, with every pool file probed after each history',
            'Pool of 35 files: every self-describing format (uamiv, lateral_boundary, ICARTT incl. DOS line endings '
            'and trailing blanks, netCDF3, netCDF4, IOAPI-netCDF, ARL, bpch) plus the indistinguishable '
            'vertical_diffusivity/humidity pair, a 2-D uamiv file with header nz=0, a second uamiv and lateral_boundary file on another grid, two files of a reader family the '
            'user defines during the history, an unrecognised file and 3-byte files with recognisable extensions, '
            'each with its extension and extension-less, plus one path whose content changes. History alphabet: an '
            'auto-detecting open of every pool file, 9 opens with an explicitly named format, re-registration of 3 '
            'registered readers, definition of a new reader family by subclassing (histories containing it are judged '
            'against the history holding only the definition). Every history of length 0..2 (quick) / 0..3 (thorough; the reduced '
            '24-event alphabet at the depth bound) runs in a forked child of a pristine parent; afterwards every pool '
            'file is probed in both orders: selected reader (or exception type), dimensions and a hash of all '
            'variable data must equal the fresh-process result and the registry must be unchanged; auto-detected '
            'result == explicit-format result for self-describing formats.',
            'fork isolates histories (whole process state, not only the registry list)', 'DESIGN.md section 4 C15'),
}

PENDING_REASON = ('check not built yet in this session; planned per DESIGN.md section 4 '
                  '(bounded exhaustive exploration applies)')


def main():
    props = [json.loads(l) for l in open(os.path.join(ROOT, 'properties.jsonl'))]
    checks = []
    na = []
    for p in props:
        pid = p['id']
        eng_extra = {'C05': 'engine-B+engine-C'}
        if pid in CLAIMED and os.path.exists(os.path.join(ROOT, 'mc', 'props', pid.lower() + '.py')):
            eng, cat, tech, text, note, ref = CLAIMED[pid]
            checks.append({
                'property_id': pid,
                'quick_cmd': './check %s --tier quick' % pid,
                'thorough_cmd': './check %s --tier thorough' % pid,
                'evidence_file': '/verif/evidence/%s.json' % pid,
                'replay_cmd_template': './check %s --replay {path}' % pid,
                'engine': 'engine-' + eng,
                'level_claimed': {'category': cat, 'text': text, 'design_ref': ref},
                'level_note': note,
                'technique': tech,
            })
        else:
            na.append({'property_id': pid, 'reason': PENDING_REASON})
    man = {
        'version': 1,
        'setup_cmd': './setup.sh',
        'hooks': {
            'guard': 'PSEUDONETCDF_VERIF',
            'enable': 'no source hooks are needed: checks import the library from '
                      '${VERIF_PNC_SRC:-/repo/src} (pure python, no build) and observe public state',
            'baseline_off_cmd': 'cd /repo && /venv/bin/python -m pytest -ra -q -p no:cacheprovider '
                                '--timeout=900 --continue-on-collection-errors',
            'source_commits': [],
            'add_only': True,
        },
        'engines': [
            {'name': 'engine-A', 'path': 'mc/engine/core.py',
             'serves_properties': [c['property_id'] for c in checks if c['engine'] == 'engine-A'],
             'kind_free_text': 'bounded-exhaustive case enumeration on the real code against reference models '
                               '(16-way sharded, per-case watchdog, fresh-process confirmation)'},
            {'name': 'engine-B', 'path': 'mc/engine/bfs.py',
             'serves_properties': [c['property_id'] for c in checks if c['engine'] == 'engine-B'],
             'kind_free_text': 'explicit-state breadth-first search over operation sequences; states are real '
                               'objects rebuilt by replaying histories, deduplicated on a canonical hash'},
            {'name': 'engine-B-fork', 'path': 'mc/props/c15.py',
             'serves_properties': ['C15'],
             'kind_free_text': 'exhaustive enumeration of open histories over process-global state: every history '
                               'runs in a child forked from a pristine parent, followed by probes of every pool file'},
            {'name': 'engine-C', 'path': 'mc/engine/sched.py',
             'serves_properties': ['C05'],
             'kind_free_text': 'exhaustive open/close/drop/gc event-schedule explorer on real netCDF handles'},
            {'name': 'engine-D', 'path': 'mc/props/c14.py',
             'serves_properties': [c['property_id'] for c in checks if c['engine'] == 'engine-D'],
             'kind_free_text': 'every-byte-prefix (crash point) enumerator for generated binary files'},
        ],
        'checks': checks,
        'notes': 'Known genuine defects are listed in /verif/known_findings.json (matched by signature+scope). '
                 'VERIF_SEED only permutes shard dispatch order; the explored set is identical for every seed.',
        'not_applicable': na,
    }
    man['engines'] = [e for e in man['engines'] if e['serves_properties']]
    with open(os.path.join(ROOT, 'MANIFEST.json'), 'w') as f:
        json.dump(man, f, indent=1)
    print('MANIFEST: %d checks, %d not_applicable' % (len(checks), len(na)))


if __name__ == '__main__':
    main()
