"""Engine B: explicit-state breadth-first search over operation sequences on
real objects.

A state is a real object identified by canon(state) (a 64-bit hash of its
canonical form); because live objects cannot be copied reliably a state is
stored as (seed index, history) and rebuilt by replaying the history on a
fresh seed before expansion.  The rebuilt state's hash must equal the stored
hash, otherwise the run aborts with a harness error (nondeterministic replay).
Level-synchronous: each level's frontier is sharded over worker processes.
"""
import os
import sys
import time
import random
import signal
import importlib
import traceback
import collections
import multiprocessing as mp

from . import core
from .core import viol, result


class BfsProp(core.Prop):
    ENGINE = 'B'
    STATE_CAP = 200000

    def depth(self, tier):
        return 2 if tier == 'quick' else 3

    def seeds(self, tier):
        raise NotImplementedError

    def build_seed(self, seedrec):
        raise NotImplementedError

    def menu(self, state):
        """list of JSON-able operation descriptors enabled in this state"""
        raise NotImplementedError

    def apply(self, state, op):
        """execute op on state with the real library; return the successor
        state (a real object) or None for pure queries; may raise"""
        raise NotImplementedError

    def canon(self, state):
        raise NotImplementedError

    def check_state(self, state, seedrec, hist):
        return []

    def expand_state(self, state, seedrec, hist, final):
        """Default expansion: apply every menu op, check, return list of
        (op, succ_hash or None, viols, outcome, extra_trans).  Subclasses
        usually override `step` instead."""
        out = []
        for op in self.menu(state):
            r = self.step(state, seedrec, hist, op)
            out.append(r)
            if r.get('rebuild'):
                state = self.rebuild(seedrec, hist)
        return out

    def replay(self, doc):
        """straight-line re-run of one recorded history (no explorer)"""
        case = doc['case']
        seedrec, hist = case['seed'], case['hist']
        try:
            if not hist:
                state = self.build_seed(seedrec)
                vs = self.check_state(state, seedrec, hist)
                return result('viol' if vs else 'ok', vs, [], 0), None
            state = self.rebuild(seedrec, hist[:-1])
            r = self.step(state, seedrec, hist[:-1], hist[-1])
            return result(r['outcome'], r['viol'], [], r.get('trans', 1)), None
        except BaseException:
            return None, traceback.format_exc()

    def rebuild(self, seedrec, hist):
        core.restore_globals()
        s = self.build_seed(seedrec)
        for op in hist:
            s = self.apply(s, op)
        return s


_W = {}


def _winit(modname, tier):
    import gc
    import warnings
    warnings.simplefilter('ignore')
    signal.signal(signal.SIGALRM, core._alarm)
    try:
        mod = importlib.import_module(modname)
        prop = mod.Prop()
        prop.tier = tier
        prop.worker_init()
    except BaseException:
        _W['init_error'] = traceback.format_exc()
        return
    gc.collect()
    gc.freeze()      # keep explicit gc.collect() events cheap: ignore the import-time heap
    gc.disable()
    _W['prop'] = prop
    _W['seeds'] = list(prop.seeds(tier))


def _wexpand(chunk):
    """chunk: list of (sidx, hist, expected_hash, final)"""
    import gc
    if 'init_error' in _W:
        return [{'sidx': c[0], 'hist': c[1], 'succ': [], 'sviol': [],
                 'harness': 'worker initialisation failed:\n' + _W['init_error']} for c in chunk[:1]]
    prop = _W['prop']
    out = []
    for sidx, hist, want, final in chunk:
        seedrec = _W['seeds'][sidx]
        rec = {'sidx': sidx, 'hist': hist, 'succ': [], 'harness': None, 'sviol': []}
        signal.setitimer(signal.ITIMER_REAL, prop.HORIZON * (len(hist) + 4))
        try:
            state = prop.rebuild(seedrec, hist)
            got = prop.canon(state)
            if want is not None and got != want:
                rec['harness'] = ('nondeterministic replay: history %r of seed %r gave hash %x, '
                                  'stored %x' % (hist, seedrec, got, want))
                out.append(rec)
                signal.setitimer(signal.ITIMER_REAL, 0)
                continue
            rec['hash'] = got
            if not hist:
                rec['sviol'] = prop.check_state(state, seedrec, hist)
            signal.setitimer(signal.ITIMER_REAL, 0)
            for op in (prop.menu_at(state, hist) if hasattr(prop, 'menu_at') else prop.menu(state)):
                signal.setitimer(signal.ITIMER_REAL, prop.HORIZON)
                core.restore_globals()
                try:
                    r = prop.step(state, seedrec, hist, op)
                except core.Timeout:
                    r = {'op': op, 'hash': None, 'viol': [viol('no-termination', (op.get('op'),),
                                                                'operation exceeded horizon')],
                         'outcome': 'no-termination', 'trans': 1, 'rebuild': True}
                signal.setitimer(signal.ITIMER_REAL, 0)
                rec['succ'].append({k: r[k] for k in ('op', 'hash', 'viol', 'outcome', 'trans')
                                    if k in r} | {'nt': r.get('nt')})
                if r.get('rebuild'):
                    state = prop.rebuild(seedrec, hist)
        except core.Timeout:
            signal.setitimer(signal.ITIMER_REAL, 0)
            rec['harness'] = 'timeout while rebuilding %r' % (hist,)
        except BaseException:
            signal.setitimer(signal.ITIMER_REAL, 0)
            rec['harness'] = traceback.format_exc()
        out.append(rec)
        gc.collect()
    return out


def explore(modname, tier, seed):
    mod = importlib.import_module(modname)
    prop = mod.Prop()
    prop.tier = tier
    seeds = list(prop.seeds(tier))
    depth = prop.depth(tier)
    agg = core.new_agg(prop.ID)
    caps = []
    seen = set()
    frontier = [(i, [], None) for i in range(len(seeds))]
    nw = core.NWORKERS
    ctx = mp.get_context('fork')
    pool = ctx.Pool(nw, initializer=_winit, initargs=(modname, tier)) if nw > 1 else None
    if pool is None:
        _winit(modname, tier)
    levels = []
    cid = 0
    try:
        for level in range(depth):
            if not frontier:
                break
            items = [(s, h, w, False) for s, h, w in frontier]
            nch = max(1, min(len(items), nw * 8))
            chunks = [items[i::nch] for i in range(nch)]
            random.Random(seed + level).shuffle(chunks)
            results = []
            if pool is None:
                for ch in chunks:
                    results.extend(_wexpand(ch))
            else:
                for part in pool.imap_unordered(_wexpand, chunks):
                    results.extend(part)
            # deterministic processing order regardless of scheduling
            results.sort(key=lambda r: (r['sidx'], core.jdump(r['hist'])))
            nxt = []
            ntrans = 0
            for r in results:
                if r['harness']:
                    agg['harness'].append({'case': {'seed': seeds[r['sidx']], 'hist': r['hist']},
                                           'trace': r['harness']})
                    continue
                if not r['hist']:
                    seen.add(r['hash'])
                    for v in r['sviol']:
                        core.fold(agg, (level, cid), {'seed': seeds[r['sidx']], 'hist': []},
                                  result('viol', [v], [r['hash']], 0))
                        cid += 1
                for s in r['succ']:
                    case = {'seed': seeds[r['sidx']], 'hist': r['hist'] + [s['op']]}
                    st = [r['hash']] + ([s['hash']] if s['hash'] is not None else [])
                    core.fold(agg, (level + 1, cid), case,
                              result(s['outcome'], s['viol'], st, s.get('trans', 1), s.get('nt'),
                                     s['hash']))
                    cid += 1
                    ntrans += s.get('trans', 1)
                    if s['hash'] is not None and s['hash'] not in seen:
                        seen.add(s['hash'])
                        if len(seen) <= prop.STATE_CAP:
                            nxt.append((r['sidx'], r['hist'] + [s['op']], s['hash']))
            levels.append({'level': level, 'expanded': len(results),
                           'new_states': len(nxt), 'transitions': ntrans})
            if len(seen) > prop.STATE_CAP:
                caps.append('state cap %d hit at level %d' % (prop.STATE_CAP, level))
            if agg['harness']:
                break
            frontier = nxt
    finally:
        if pool is not None:
            pool.terminate()
            pool.join()
    agg['states'] |= seen
    agg['ngroups'] = len(seeds)
    return prop, agg, {'levels': levels, 'depth': depth, 'seeds': len(seeds),
                       'distinct_states': len(seen)}, caps
