"""CLI:  python -m mc.run <ID> --tier quick|thorough
         python -m mc.run <ID> --replay <file>
"""
import os
import sys
import json
import time
import argparse
import importlib

from .engine import core, report


def main(argv=None):
    ap = argparse.ArgumentParser()
    ap.add_argument('pid')
    ap.add_argument('--tier', default=os.environ.get('VERIF_TIER', 'quick'),
                    choices=['quick', 'thorough'])
    ap.add_argument('--replay')
    ap.add_argument('--quiet', action='store_true')
    a = ap.parse_args(argv)
    pid = a.pid.upper()
    modname = 'mc.props.' + pid.lower()
    seed = int(os.environ.get('VERIF_SEED', '0') or 0)
    t0 = time.time()
    if a.replay:
        return replay(modname, pid, a.replay, a.quiet)
    mod = importlib.import_module(modname)
    if hasattr(mod, 'main'):
        # engines B/C/D drive their own exploration
        return mod.main(a.tier, seed, t0)
    prop, agg = core.explore(modname, a.tier, seed)
    return report.finish(prop, agg, a.tier, seed, t0)


def replay(modname, pid, path, quiet=False):
    """Straight-line re-run of one recorded case, without the explorer."""
    import signal
    with open(path) as f:
        doc = json.load(f)
    signal.signal(signal.SIGALRM, core._alarm)
    mod = importlib.import_module(modname)
    prop = mod.Prop()
    prop.tier = 'quick'
    prop.worker_init()
    if hasattr(prop, 'replay'):
        r, herr = prop.replay(doc)
    else:
        r, herr = core.run_case_guarded(prop, doc['case'])
    if herr:
        print('HARNESS-ERROR during replay\n' + herr)
        return 2
    known = [e for e in report.load_known(pid) if e.get('status', 'open') == 'open']
    bad = 0
    for v in r['viol']:
        isknown = any(report._match_one(k, v) for k in known)
        if not quiet:
            print(('KNOWN ' if isknown else 'FAIL  ') + core.signature(v))
            print('   ' + v.get('detail', ''))
        if not isknown:
            bad += 1
    if not quiet:
        print('replay of %s: outcome=%s violations=%d (unlisted=%d)'
              % (path, r['outcome'], len(r['viol']), bad))
    return 1 if bad else 0


if __name__ == '__main__':
    sys.exit(main())
