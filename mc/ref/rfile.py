"""Boring reference model of a netCDF-like file.  No PseudoNetCDF import.

RFile: dims   OrderedDict name -> [length, unlimited]
       vars   OrderedDict name -> RVar(dims, data (ndarray), mask (bool ndarray),
                                       attrs OrderedDict, fill)
       attrs  OrderedDict
       coords set of variable names registered as coordinates
"""
import hashlib
from collections import OrderedDict

import numpy as np


class RVar(object):
    __slots__ = ('dims', 'data', 'mask', 'attrs', 'fill', 'masked')

    def __init__(self, dims, data, mask=None, attrs=None, fill=None, masked=None):
        self.dims = tuple(dims)
        self.data = np.array(data)
        if mask is None:
            mask = np.zeros(self.data.shape, bool)
        self.mask = np.array(mask, dtype=bool).reshape(self.data.shape)
        self.attrs = OrderedDict(attrs or {})
        self.fill = fill
        self.masked = bool(self.mask.any() or fill is not None) if masked is None else masked

    def ma(self):
        return np.ma.MaskedArray(self.data.copy(), mask=self.mask.copy())

    def copy(self):
        return RVar(self.dims, self.data.copy(), self.mask.copy(),
                    OrderedDict(self.attrs), self.fill, self.masked)


class RFile(object):
    def __init__(self):
        self.dims = OrderedDict()
        self.vars = OrderedDict()
        self.attrs = OrderedDict()
        self.coords = set()
        self.cls = 'PseudoNetCDFFile'

    def copy(self):
        o = RFile()
        o.dims = OrderedDict((k, list(v)) for k, v in self.dims.items())
        o.vars = OrderedDict((k, v.copy()) for k, v in self.vars.items())
        o.attrs = OrderedDict(self.attrs)
        o.coords = set(self.coords)
        o.cls = self.cls
        return o


# --------------------------------------------------------------------------
# the shared file universe U (DESIGN section 3)

KINDS = ('A', 'M', 'B', 'X', 'Zx', 'S', 'Ch', 'M0', 'Mn', 'Sw', 'Kxx')
_KIDX = {k: i + 1 for i, k in enumerate(KINDS)}
XCOORD = {1: [10.], 2: [10., 20.], 3: [10., 20., 40.], 4: [10., 20., 40., 50.]}


def _ramp(kind, shape, dtype):
    n = int(np.prod(shape)) if len(shape) else 1
    vals = 1000 * _KIDX[kind] + np.arange(n) + 1
    return vals.reshape(shape).astype(dtype)


def ufile(recipe):
    """recipe: {'lens': {'t':2,'z':1,'x':3}, 'unl': bool, 'kinds': [...],
                'attrs': bool (default True), 'xdesc': bool}"""
    lens = recipe['lens']
    f = RFile()
    for d in ('t', 'z', 'x'):
        if d in lens:
            f.dims[d] = [int(lens[d]), bool(recipe.get('unl', False)) and d == 't']
    if recipe.get('attrs', True):
        f.attrs['title'] = 'universe file'
        f.attrs['ival'] = 7
        f.attrs['fval'] = 2.5
        f.attrs['farr'] = np.array([1.5, 2.5], dtype='f')
    for k in recipe['kinds']:
        if k == 'A':
            sh = tuple(lens[d] for d in ('t', 'z', 'x'))
            f.vars['A'] = RVar(('t', 'z', 'x'), _ramp('A', sh, 'f'),
                               attrs=OrderedDict([('units', 'ppb'), ('long_name', 'A var')]))
        elif k == 'M':
            sh = (lens['t'], lens['x'])
            d = _ramp('M', sh, 'd')
            m = np.zeros(sh, bool)
            m.flat[1 if m.size > 1 else 0] = True
            f.vars['M'] = RVar(('t', 'x'), d, m, OrderedDict([('units', 'K')]), fill=-999.)
        elif k == 'B':
            f.vars['B'] = RVar(('x',), _ramp('B', (lens['x'],), 'i'),
                               attrs=OrderedDict([('units', 'count')]))
        elif k == 'X':
            xv = np.array(XCOORD[lens['x']], dtype='d')
            if recipe.get('xdesc'):
                xv = xv[::-1].copy()
            f.vars['x'] = RVar(('x',), xv, attrs=OrderedDict([('units', 'm')]))
            f.coords.add('x')
        elif k == 'Zx':
            f.vars['Zx'] = RVar(('z', 'x'), _ramp('Zx', (lens['z'], lens['x']), 'f'),
                                attrs=OrderedDict([('units', 'm')]))
        elif k == 'Kxx':
            # a variable that carries one dimension on two axes (averaging kernel, covariance matrix)
            f.vars['Kxx'] = RVar(('t', 'x', 'x'), _ramp('Kxx', (lens['t'], lens['x'], lens['x']), 'd'),
                                 attrs=OrderedDict([('units', '1')]))
        elif k == 'S':
            f.vars['S'] = RVar((), _ramp('S', (), 'i'), attrs=OrderedDict([('units', '1')]))
        elif k == 'M0':
            # masked int variable whose fill value is exactly zero
            sh = (lens['z'], lens['x'])
            d = _ramp('M0', sh, 'i')
            m = np.zeros(sh, bool)
            m.flat[0] = True
            f.vars['M0'] = RVar(('z', 'x'), d, m, OrderedDict([('units', 'n')]), fill=0)
        elif k == 'Mn':
            # masked variable holding VALID cells equal to, and within 1e-5 (relative) of, its fill value
            sh = (lens['t'], lens['x'])
            d = _ramp('Mn', sh, 'd')
            d.flat[0] = -999.
            if d.size > 2:
                d.flat[2] = -998.995
            m = np.zeros(sh, bool)
            m.flat[1 if m.size > 1 else 0] = True
            if m.size == 1:
                m[...] = False
            f.vars['Mn'] = RVar(('t', 'x'), d, m, OrderedDict([('units', 'K')]), fill=-999., masked=True)
        elif k == 'Sw':
            # strings of four characters per element (not a character array)
            n = lens['x']
            f.vars['Sw'] = RVar(('x',), np.array([b'KATL', b'KBOS', b'KDEN', b'KJFK'][:n], dtype='S4'),
                                attrs=OrderedDict([('units', 'site')]))
        elif k == 'Ch':
            n = lens['x']
            f.vars['Ch'] = RVar(('x',), np.array(list('abcd'[:n]), dtype='S1'),
                                attrs=OrderedDict([('units', 'char')]))
        else:
            raise ValueError(k)
    return f


# --------------------------------------------------------------------------
# canonical form / hashing

def _attr_canon(v):
    if isinstance(v, np.ndarray):
        return ('arr', v.dtype.str, v.shape, v.tobytes())
    if isinstance(v, np.generic):
        return ('np', v.dtype.str, v.tobytes())
    if isinstance(v, (bytes, str, int, float, bool)) or v is None:
        return (type(v).__name__, v)
    if isinstance(v, (list, tuple)):
        return ('seq', tuple(_attr_canon(i) for i in v))
    return ('repr', repr(v))


DROP_ATTRS = ('CDATE', 'CTIME', 'WDATE', 'WTIME')


def canon_bytes(f, drop=DROP_ATTRS):
    h = hashlib.blake2b(digest_size=8)

    def up(o):
        h.update(repr(o).encode())
        h.update(b'\x1e')
    up(f.cls)
    for k, (n, u) in f.dims.items():
        up(('d', k, int(n), bool(u)))
    for k, v in f.vars.items():
        up(('v', k, v.dims, v.data.dtype.str, v.data.shape, bool(v.masked)))
        d = np.where(v.mask, np.zeros((), v.data.dtype), v.data) if v.data.dtype.kind != 'S' else v.data
        h.update(np.ascontiguousarray(d).tobytes())
        h.update(np.ascontiguousarray(v.mask).tobytes())
        up(('fill', None if v.fill is None else repr(v.fill)))
        for ak, av in v.attrs.items():
            if ak not in drop:
                up(('va', ak, _attr_canon(av)))
    for ak, av in f.attrs.items():
        if ak not in drop:
            up(('ga', ak, _attr_canon(av)))
    up(tuple(sorted(f.coords)))
    return h.digest()


def canon(f, drop=DROP_ATTRS):
    return int.from_bytes(canon_bytes(f, drop), 'big')


# --------------------------------------------------------------------------
# comparison

def attr_equal(a, b, strict_type=False):
    if isinstance(a, (np.ndarray, np.generic)) or isinstance(b, (np.ndarray, np.generic)):
        a_, b_ = np.asarray(a), np.asarray(b)
        if a_.shape != b_.shape:
            return False
        if strict_type and a_.dtype != b_.dtype:
            return False
        if a_.dtype.kind in 'fc' or b_.dtype.kind in 'fc':
            return bool(np.array_equal(a_, b_, equal_nan=True))
        return bool(np.array_equal(a_, b_))
    if isinstance(a, float) and isinstance(b, float) and a != a and b != b:
        return True
    try:
        return bool(a == b)
    except Exception:
        return False


def values_identical(av, bv):
    """bit-identical, except that NaN payloads are not distinguished; dtype
    differences are reported separately so values are compared by value then."""
    av, bv = np.asarray(av), np.asarray(bv)
    if av.shape != bv.shape:
        return False
    if av.dtype == bv.dtype and av.tobytes() == bv.tobytes():
        return True
    if av.dtype.kind in 'fc' and bv.dtype.kind in 'fc':
        if not np.array_equal(av, bv, equal_nan=True):
            return False
        if av.dtype.kind == 'f' and bv.dtype.kind == 'f':
            return bool(np.array_equal(np.signbit(av), np.signbit(bv)))
        return True
    if av.dtype.kind in 'SU' or bv.dtype.kind in 'SU':
        return bool(np.array_equal(av, bv))
    try:
        return bool(np.array_equal(av, bv, equal_nan=True))
    except Exception:
        return bool(np.array_equal(av, bv))


def var_diff(name, a, b, dtype=True, attrs=True, fill=False, dims=True):
    """differences between RVar a (observed) and b (expected)."""
    out = []
    if dims and a.dims != b.dims:
        out.append('%s: dimensions %r != expected %r' % (name, a.dims, b.dims))
    if a.data.shape != b.data.shape:
        out.append('%s: shape %r != expected %r' % (name, a.data.shape, b.data.shape))
        return out
    if dtype and a.data.dtype != b.data.dtype:
        out.append('%s: dtype %s != expected %s' % (name, a.data.dtype, b.data.dtype))
    if not np.array_equal(a.mask, b.mask):
        out.append('%s: mask %s != expected %s' % (name, a.mask.astype(int).tolist(),
                                                   b.mask.astype(int).tolist()))
    else:
        keep = ~b.mask
        av, bv = a.data[keep], b.data[keep]
        if not values_identical(av, bv):
            out.append('%s: data %s != expected %s' % (name, _short(av), _short(bv)))
    if attrs:
        if list(a.attrs) != list(b.attrs):
            if sorted(a.attrs) != sorted(b.attrs):
                out.append('%s: attribute names %r != expected %r'
                           % (name, list(a.attrs), list(b.attrs)))
        for k in b.attrs:
            if k in a.attrs and not attr_equal(a.attrs[k], b.attrs[k]):
                out.append('%s: attribute %s = %r != expected %r'
                           % (name, k, a.attrs[k], b.attrs[k]))
    if fill and b.fill is not None:
        if a.fill is None or not attr_equal(a.fill, b.fill):
            out.append('%s: fill value %r != expected %r' % (name, a.fill, b.fill))
    return out


def _short(a):
    a = np.asarray(a).ravel()
    s = np.array2string(a[:12], separator=',', threshold=12)
    return s + ('...' if a.size > 12 else '')


def file_diff(a, b, dtype=True, attrs=True, gattrs=True, fill=False, order=False,
              unlimited=True, drop=DROP_ATTRS, dimorder=False):
    """differences between RFile a (observed) and b (expected)."""
    out = []
    ad = {k: (int(n), bool(u) if unlimited else None) for k, (n, u) in a.dims.items()}
    bd = {k: (int(n), bool(u) if unlimited else None) for k, (n, u) in b.dims.items()}
    if ad != bd:
        out.append('dimensions %r != expected %r' % (ad, bd))
    elif dimorder and list(a.dims) != list(b.dims):
        out.append('dimension order %r != expected %r' % (list(a.dims), list(b.dims)))
    if sorted(a.vars) != sorted(b.vars):
        out.append('variables %r != expected %r' % (list(a.vars), list(b.vars)))
    elif order and list(a.vars) != list(b.vars):
        out.append('variable order %r != expected %r' % (list(a.vars), list(b.vars)))
    for k in b.vars:
        if k in a.vars:
            out.extend(var_diff(k, a.vars[k], b.vars[k], dtype=dtype, attrs=attrs, fill=fill))
    if gattrs:
        an = [k for k in a.attrs if k not in drop]
        bn = [k for k in b.attrs if k not in drop]
        if sorted(an) != sorted(bn):
            out.append('global attribute names %r != expected %r' % (an, bn))
        for k in bn:
            if k in a.attrs and not attr_equal(a.attrs[k], b.attrs[k]):
                out.append('global attribute %s = %r != expected %r'
                           % (k, a.attrs[k], b.attrs[k]))
    return out
