"""C01 - every operation yields a structurally well-formed file (Engine B).

Explicit-state BFS over sequences of public transformation operations, from a
set of seed files (constructors, IOAPI constructors, reader outputs).  The
invariant is evaluated on every state reached; the step oracle demands that
in-domain operation instances complete.
"""
import os
import shutil
import tempfile

import numpy as np

from ..engine import core, bfs, report
from ..engine.core import viol, h64
from ..ref import rfile
from .. import lib, ops


def seed_list(tier):
    K = ['A', 'M', 'B', 'X', 'Zx', 'S', 'M0', 'Mn', 'Sw']
    seeds = [
        {'kind': 'U', 'file': {'lens': {'t': 2, 'z': 2, 'x': 3}, 'unl': True, 'kinds': K}},
        {'kind': 'U', 'file': {'lens': {'t': 1, 'z': 1, 'x': 1}, 'unl': True, 'kinds': K}},
        {'kind': 'U', 'file': {'lens': {'t': 2, 'z': 1, 'x': 2}, 'unl': False,
                               'kinds': ['A', 'M', 'B', 'Zx', 'S']}},
        {'kind': 'U', 'file': {'lens': {'t': 1, 'z': 2, 'x': 2}, 'unl': False,
                               'kinds': ['A', 'B', 'X', 'Ch']}},
        # a variable that carries one dimension on two axes (averaging kernel K(t,x,x))
        {'kind': 'U', 'file': {'lens': {'t': 2, 'z': 1, 'x': 3}, 'unl': True, 'kinds': ['A', 'X', 'Kxx']}},
        {'kind': 'U', 'file': {'lens': {'t': 3, 'z': 1, 'x': 2}, 'unl': True,
                               'kinds': ['S', 'B', 'M0']}},
        {'kind': 'U', 'file': {'lens': {'t': 2, 'z': 2, 'x': 2}, 'unl': True,
                               'kinds': ['M', 'X'], 'xdesc': True}},
        {'kind': 'ioapi', 'rec': {'nt': 2, 'nl': 2, 'nr': 2, 'nc': 3, 'nv': 2, 'start': 0,
                                  'tstep': 10000, 'kind': 'grid', 'masked': False}},
        {'kind': 'ioapi', 'rec': {'nt': 1, 'nl': 1, 'nr': 1, 'nc': 1, 'nv': 1, 'start': 1,
                                  'tstep': 10000, 'kind': 'bdy', 'masked': False}},
        {'kind': 'ioapi', 'rec': {'nt': 2, 'nl': 1, 'nr': 2, 'nc': 2, 'nv': 1, 'start': 0,
                                  'tstep': 10000, 'kind': 'grid', 'masked': False, 'arrorig': True}},
        {'kind': 'netcdf', 'file': {'lens': {'t': 2, 'z': 1, 'x': 3}, 'unl': True,
                                    'kinds': ['A', 'M', 'B', 'X', 'S']}, 'format': 'NETCDF4_CLASSIC'},
        {'kind': 'netcdf', 'file': {'lens': {'t': 1, 'z': 2, 'x': 2}, 'unl': False,
                                    'kinds': ['A', 'B', 'Zx']}, 'format': 'NETCDF3_CLASSIC'},
        {'kind': 'ioapi', 'rec': {'nt': 2, 'nl': 1, 'nr': 2, 'nc': 2, 'nv': 2, 'start': 2,
                                  'tstep': 10000, 'kind': 'disk', 'masked': False}},
        # masked-type variable without a masked cell that holds NaN and inf; time-independent flags (-635)
        {'kind': 'special', 'which': 'nonfinite'},
        {'kind': 'special', 'which': 'tflag635'},
        # CF time coordinate whose units are a valid but not canonical spelling
        {'kind': 'special', 'which': 'cftime'},
        # CF coordinates with bounds variables (time_bounds, latitude_bounds): metadata keys of the functional forms
        {'kind': 'special', 'which': 'cfbounds'},
        {'kind': 'sample', 'format': 'uamiv', 'path': 'camxfiles/uamiv/test.uamiv'},
        {'kind': 'sample', 'format': 'ffi1001', 'path': 'icarttfiles/test.ffi1001'},
    ]
    return seeds


class Prop(bfs.BfsProp):
    ID = 'C01'
    RULE = ('breadth-first search over operation sequences: every menu operation (state-derived, '
            '~30 instances of copy/slice/apply/stack/subset/rename/insert/remove/reorder/mask/eval/'
            'arithmetic/interpolate/from_ncf and functional forms) is applied to every distinct '
            'canonical state up to the depth bound; non-trivial = the successor state differs from '
            'its predecessor; distinct = distinct (state, operation, successor) triples')
    ASSUMPTIONS = [
        'canonical form = ordered dims (name,len,unlimited), ordered variables (dims,dtype,data,mask,'
        'fill,attrs), global attrs minus IOAPI wall-clock stamps, coordinate set, class: equal '
        'canon => equal futures under the menu',
        'in-domain instances are those the menu marks dom=True from the state structure '
        '(DESIGN 3.1); out-of-domain instances may raise or return any well-formed file',
        'sample-reader seeds use the bundled test files of the repository',
    ]
    MONITOR = 'wellformed'

    def depth(self, tier):
        return 2 if tier == 'quick' else 3

    def bounds(self, tier):
        return {'depth': self.depth(tier), 'seeds': len(seed_list(tier)),
                'menu': 'state-derived, <= ~34 operation instances per state',
                'state_cap': self.STATE_CAP}

    def seeds(self, tier):
        return seed_list(tier)

    def worker_init(self):
        core.load_lib()
        base = '/dev/shm' if os.path.isdir('/dev/shm') else None
        self.tmp = tempfile.mkdtemp(prefix='verif_%s_' % self.ID.lower(), dir=base)
        import atexit
        atexit.register(shutil.rmtree, self.tmp, True)

    def build_seed(self, s):
        P = lib.pnc()
        if s['kind'] == 'U':
            return lib.to_real(rfile.ufile(s['file']))
        if s['kind'] == 'ioapi':
            from .. import ioapi_u
            return ioapi_u.build(s['rec'], self.tmp)
        if s['kind'] == 'netcdf':
            path = os.path.join(self.tmp, 'seed_%d_%s.nc' % (os.getpid(), s['format']))
            if os.path.exists(path):
                os.unlink(path)
            lib.to_real(rfile.ufile(s['file'])).save(path, format=s['format'], verbose=0).close()
            return P.pncopen(path, format='netcdf')
        if s['kind'] == 'special':
            f = P.PseudoNetCDFFile()
            if s['which'] == 'nonfinite':
                f.createDimension('t', 2)
                f.createDimension('x', 3)
                v = f.createVariable('NF', 'f', ('t', 'x'), fill_value=-999.)
                v.units = 'ppb'
                v[...] = np.ma.MaskedArray(np.array([[1., np.nan, 3.], [np.inf, 5., -np.inf]], dtype='f'),
                                           mask=np.zeros((2, 3), bool))
                w = f.createVariable('PL', 'd', ('x',))
                w.units = 'm'
                w[...] = [1., np.nan, 3.]
                f.title = 'nonfinite'
            elif s['which'] == 'cftime':
                f.createDimension('time', 3)
                f.createDimension('x', 2)
                tv = f.createVariable('time', 'd', ('time',))
                tv.units = 'hours since 2000-01-01'
                tv[...] = [0., 6., 12.]
                v = f.createVariable('T', 'f', ('time', 'x'))
                v.units = 'K'
                v[...] = [[1, 2], [3, 4], [5, 6]]
                f.setCoords(['time'])
            elif s['which'] == 'cfbounds':
                f.createDimension('time', 3)
                f.createDimension('nv', 2)
                f.createDimension('latitude', 2)
                tv = f.createVariable('time', 'd', ('time',))
                tv.units = 'hours since 2000-01-01 00:00:00+0000'
                tv[...] = [0.5, 1.5, 2.5]
                tb = f.createVariable('time_bounds', 'd', ('time', 'nv'))
                tb.units = tv.units
                tb[...] = [[0., 1.], [1., 2.], [2., 3.]]
                la = f.createVariable('latitude', 'd', ('latitude',))
                la.units = 'degrees_north'
                la[...] = [10., 20.]
                lb = f.createVariable('latitude_bounds', 'd', ('latitude', 'nv'))
                lb.units = 'degrees_north'
                lb[...] = [[5., 15.], [15., 25.]]
                v = f.createVariable('T', 'f', ('time', 'latitude'))
                v.units = 'K'
                v[...] = [[1, 2], [3, 4], [5, 6]]
                f.setCoords(['time', 'latitude'])
            else:
                f.createDimension('TSTEP', 2)
                f.createDimension('VAR', 1)
                f.createDimension('DATE-TIME', 2)
                f.createDimension('x', 3)
                tf = f.createVariable('TFLAG', 'i', ('TSTEP', 'VAR', 'DATE-TIME'))
                tf.units = '<YYYYDDD,HHMMSS>'
                tf[:, 0, 0] = -635
                tf[:, 0, 1] = 0
                v = f.createVariable('LU', 'f', ('TSTEP', 'x'))
                v.units = '1'
                v[...] = [[1, 2, 3], [4, 5, 6]]
            return f
        if s['kind'] == 'sample':
            import PseudoNetCDF.testcase as tc
            path = os.path.join(os.path.dirname(tc.__file__), s['path'])
            return P.pncopen(path, format=s['format'])
        raise ValueError(s)

    def menu(self, state):
        return ops.menu(state, full=True)

    def apply(self, state, op):
        return ops.do_op(state, op)

    def canon(self, state):
        return rfile.canon(lib.snap(state))

    # ------------------------------------------------------------------
    def invariant(self, new, old, op):
        """C01 invariant on a result `new` of `op` applied to `old`."""
        out = []
        wf = lib.wellformed(new)
        if wf:
            out.append(('not-wellformed', '; '.join(wf)))
        # surviving dimensions keep their unlimited flag
        ren = {}
        if op is not None and op['op'] == 'renameDimension':
            ren = {op['old']: op['new']}
        if op is not None and op['op'] == 'renameDimensions2':
            ren = dict(zip(op['old'], op['new']))
        if old is not None:
            for k, d in old.dimensions.items():
                nk = ren.get(k, k)
                if nk in new.dimensions:
                    if bool(new.dimensions[nk].isunlimited()) != bool(d.isunlimited()):
                        if self._is_ioapi(new) and nk == 'TSTEP':
                            continue
                        out.append(('unlimited-flag-changed',
                                    'dimension %s unlimited %s -> %s' % (
                                        nk, d.isunlimited(), new.dimensions[nk].isunlimited())))
        if self._is_ioapi(new) and 'TSTEP' in new.dimensions:
            if not new.dimensions['TSTEP'].isunlimited():
                out.append(('ioapi-tstep-not-unlimited', 'TSTEP dimension is not unlimited'))
        return out

    @staticmethod
    def _is_ioapi(f):
        from PseudoNetCDF.cmaqfiles._ioapi import ioapi_base
        return isinstance(f, ioapi_base)

    def check_state(self, state, seedrec, hist):
        cls = type(state).__name__
        return [viol(c, ('seed', seedrec['kind'], cls), d) for c, d in
                self.invariant(state, None, None)]

    def step(self, state, seedrec, hist, op):
        cls = type(state).__name__
        before = self.canon(state)
        sig = (op['op'], cls)
        vs = []
        scope = {'opname': op['op'], 'cls': cls, 'dom': op['dom'],
                 'after_tstep_apply': any(o['op'] == 'apply' and o.get('dim') == 'TSTEP'
                                          for o in hist),
                 'seldim': op['sel'][0][0] if op['op'] == 'slice' else op.get('dim', '')}
        try:
            new = self.apply(state, op)
        except core.Timeout:
            raise
        except Exception as e:
            after = self.canon(state)
            r = {'op': op, 'hash': None, 'viol': vs, 'trans': 1, 'rebuild': after != before}
            if op['dom']:
                vs.append(viol('in-domain-raises', sig, '%s: %r' % (type(e).__name__, e),
                               exc=type(e).__name__, **scope))
                r['outcome'] = 'viol'
            else:
                r['outcome'] = 'ood-raise'
            return r
        for c, d in self.invariant(new, state, op):
            ill = sorted(set(w.split()[1].split('(')[0] for w in d.split('; ') if w.startswith('variable ')))
            vs.append(viol(c, sig, d, illvars=','.join(ill), **scope))
        illformed = any(v_['clause'] == 'not-wellformed' for v_ in vs)
        try:
            h = None if illformed else self.canon(new)
        except Exception as e:
            h = None
            vs.append(viol('not-wellformed', sig, 'result cannot be read back: %r' % e, **scope))
        after = self.canon(state)
        if not op['dom']:
            h = None     # out-of-domain results are checked but not explored further
        return {'op': op, 'hash': h, 'viol': vs,
                'outcome': 'viol' if vs else ('ok' if op['dom'] else 'ood-returned'),
                'trans': 1, 'nt': h64(before, op, h) if (h is not None and h != before) else None,
                'rebuild': after != before}


def main(tier, seed, t0):
    prop, agg, extra, caps = bfs.explore(__name__, tier, seed)
    return report.finish(prop, agg, tier, seed, t0, extra_cov=extra, caps_hit=caps)
