"""C09 - binary files conform to the published layout (independent codec), both
directions: reference encoder -> library reader, library writer -> reference decoder."""
import os
import shutil
import tempfile

import numpy as np

from ..engine import core
from ..engine.core import viol, result, h64
from ..ref import camx_u, rfortran as rf
from .. import camx_lib as cl

RECORD_READERS = ('uamiv', 'temperature', 'height_pressure', 'humidity', 'vertical_diffusivity', 'wind', 'one3d')
WRITABLE = ('uamiv', 'lateral_boundary', 'humidity', 'vertical_diffusivity', 'one3d', 'temperature',
            'height_pressure', 'wind', 'cloud_rain')


def scope_of(d, r):
    start, hour = r['start']
    yrs = sorted(set(i[0] // 1000 for i in r['instants']))
    return dict(fmt=d['fmt'], nsteps=d['nsteps'], nz=r['nz'], payload=d['payload'],
                crosses_century=bool(yrs[0] < 2000 <= yrs[-1]),
                crosses_year=bool(len(set(i[0] // 1000 for i in r['instants'][:len(r['steps'])])) > 1),
                end_crosses_year=bool(len(yrs) > 1),
                first_step_ends_next_day=bool(r['instants'][1][0] != r['instants'][0][0]),
                crosses_midnight=bool(len(set(i[0] for i in r['instants'])) > 1),
                ncell=d['shape'][0] * d['shape'][1], year=yrs[0], start_hour=hour, shape='x'.join(str(x) for x in d['shape']))


def build_hand(r, reverse=False):
    """a CAMx-convention file built in memory from the recipe: no ETFLAG, no boundary
    definition records, every data array a non-contiguous view; reverse = the data variables
    are created in reverse order (the formats fix the record order, not the source)"""
    P = core.load_lib()
    from PseudoNetCDF.core._variables import PseudoNetCDFVariable
    fmt = r['fmt']
    n = len(r['steps'])
    f = P.PseudoNetCDFFile()
    f.createDimension('TSTEP', n)
    f.createDimension('LAY', r['nz'])
    f.createDimension('ROW', r['ny'])
    f.createDimension('COL', r['nx'])
    f.createDimension('DATE-TIME', 2)
    names = cl.varnames(r)
    f.createDimension('VAR', len(names))
    tb, te = camx_u.expected_tflag(r)
    tf = f.createVariable('TFLAG', 'i', ('TSTEP', 'VAR', 'DATE-TIME'))
    for t in range(n):
        tf[t, :, 0] = tb[t][0]
        tf[t, :, 1] = tb[t][1]
    for nm in (names[::-1] if reverse else names):
        exp = cl.expected_var(r, nm)
        if fmt == 'lateral_boundary':
            dims = ('TSTEP', 'ROW' if nm.split('_')[0] in ('WEST', 'EAST') else 'COL', 'LAY')
            arr = np.ascontiguousarray(exp.swapaxes(1, 2)).swapaxes(1, 2)   # (t, cell, lay) view, not C-ordered
        elif exp.ndim == 3:
            dims = ('TSTEP', 'ROW', 'COL')
            arr = np.asfortranarray(exp)
        else:
            dims = ('TSTEP', 'LAY', 'ROW', 'COL')
            arr = np.asfortranarray(exp)
        f.variables[nm] = PseudoNetCDFVariable(f, nm, 'f', dims, values=arr, units='ppm')
    if fmt in ('uamiv', 'lateral_boundary'):
        g = r['grid']
        f.NAME, f.NOTE, f.ITZON = r['name'].ljust(10), r['note'].ljust(60), r['itzon']
        f.PLON, f.PLAT, f.IUTM, f.CPROJ = g['plon'], g['plat'], g['iutm'], g['iproj']
        f.TLAT1, f.TLAT2, f.ISTAG = g['tlat1'], g['tlat2'], g['istag']
        f.XORIG, f.YORIG, f.XCELL, f.YCELL = g['xorg'], g['yorg'], g['delx'], g['dely']
    if fmt == 'cloud_rain':
        f.FILEDESC = r['cldhdr']
    if fmt == 'wind':
        f.LSTAGGER = float('nan') if r.get('lstagger', 0) is None else np.array(r.get('lstagger', 0), dtype='>i')[()]
    f.SDATE, f.STIME, f.TSTEP = tb[0][0], tb[0][1], 10000
    setattr(f, 'VAR-LIST', ''.join(k.ljust(16) for k in names))
    f.NVARS = len(names)
    return f


class Prop(core.Prop):
    ID = 'C09'
    ENGINE = 'A'
    RULE = ('every descriptor of the binary universe F (format x species set x grid shape x step count x start '
            'instant x payload alphabet x NAME variant; quick = one factor at a time around a base plus all '
            'start x steps, thorough = wide products) is reference-encoded, read by the library and compared with '
            'the recipe, then written by the library writer and decoded by the reference decoder; non-trivial '
            'always (every case is a multi-record file); distinct = distinct descriptors')
    ASSUMPTIONS = [
        'record layouts are those of DESIGN Appendix A; the reference codec reproduces every bundled sample '
        'file byte for byte (checked at start-up of every worker)',
        'the recipe, not either codec, is the ground truth; float data are compared bit for bit',
        'the meteorological formats carry no grid size: the readers are given rows and columns',
    ]

    def bounds(self, tier):
        b = {f: len(camx_u.descs(f, tier)) for f in camx_u.FORMATS}
        b['landuse'] = len(camx_u.landuse_descs(tier))
        b['bpch'] = 32 if tier == 'quick' else 96
        return b

    def worker_init(self):
        core.load_lib()
        base = '/dev/shm' if os.path.isdir('/dev/shm') else None
        self.tmp = tempfile.mkdtemp(prefix='verif_%s_' % self.ID.lower(), dir=base)
        import atexit
        atexit.register(shutil.rmtree, self.tmp, True)
        self.selfcheck()

    def selfcheck(self):
        import PseudoNetCDF.testcase as tc
        base = os.path.join(os.path.dirname(tc.__file__), 'camxfiles')
        b = open(os.path.join(base, 'uamiv/test.uamiv'), 'rb').read()
        assert rf.enc_uamiv(rf.dec_uamiv(b)) == b
        b = open(os.path.join(base, 'lateral_boundary/test.lateral_boundary'), 'rb').read()
        assert rf.enc_lateral_boundary(rf.dec_lateral_boundary(b)) == b
        for f, enc, dec in (('humidity', rf.enc_one3d, rf.dec_one3d), ('temperature', rf.enc_temperature, rf.dec_temperature),
                            ('height_pressure', rf.enc_height_pressure, rf.dec_height_pressure),
                            ('wind', rf.enc_wind, rf.dec_wind)):
            b = open(os.path.join(base, f, 'test.' + f), 'rb').read()
            assert enc(dec(b, 4, 5, 3)) == b, f
        b = open(os.path.join(base, 'cloud_rain/test.cloud_rain'), 'rb').read()
        assert rf.enc_cloud_rain(rf.dec_cloud_rain(b)) == b
        b = open(os.path.join(base, 'landuse/test.landuse'), 'rb').read()
        assert rf.enc_landuse(rf.dec_landuse(b, 4, 5)) == b

    def groups(self, tier):
        for fmt in camx_u.FORMATS:
            for d in camx_u.descs(fmt, tier):
                yield d
        for d in camx_u.landuse_descs(tier):
            yield d
        # GEOS-Chem binary punch files: the same record walker / codec, cases shared with C18
        for nt in (1, 2):
            for ncat in (1, 2):
                for ntr in (1, 2):
                    for start in ([1, 1, 1], [2, 3, 2]):
                        for lay in (('2+3',) if tier == 'quick' else ('1', '2+3', '3+1')):
                            yield {'fmt': 'bpch', 'case': {'nt': nt, 'ncat': ncat, 'ntr': ntr, 'layers': lay,
                                                           'start': start, 'tables': 'complete'}}

    def run_bpch(self, d):
        from . import c18
        if not hasattr(self, '_c18'):
            self._c18 = c18.Prop()
            self._c18.tier = self.tier
            self._c18.worker_init()
        r = self._c18.run_one(d['case'])
        for v in r['viol']:
            v['fmt'] = 'bpch'
        return r

    def run_landuse(self, d):
        r = camx_u.materialize_landuse(d)
        raw = rf.enc_landuse(r)
        p = self.path('ref')
        with open(p, 'wb') as fh:
            fh.write(raw)
        scope = dict(fmt='landuse', style=d['style'], others='+'.join(d['others']) or 'none',
                     shape='x'.join(str(x) for x in d['shape']), payload=d['payload'],
                     ncell=d['shape'][0] * d['shape'][1])
        vs = []
        ntrans = 1
        f = None
        try:
            f = cl.open_lu(p, r)
            for c, det in cl.lu_compare(f, r):
                vs.append(viol('read-' + c, ('reader', 'landuse'), det, **scope))
        except Exception as e:
            vs.append(viol('read-raises', ('reader', 'landuse'), '%s: %r' % (type(e).__name__, e),
                           exc=type(e).__name__, **scope))
        sources = [('writer', f)] if f is not None and not vs else []
        try:
            sources.append(('writer-hand-built', cl.lu_hand(r)))
            if r['others']:
                sources.append(('writer-hand-built-reversed', cl.lu_hand(r, reverse=True)))
        except Exception as e:
            vs.append(viol('harness', ('hand', 'landuse'), repr(e), **scope))
        for tag, src in sources:
            q = self.path('out')
            if os.path.exists(q):
                os.unlink(q)
            try:
                cl.write('landuse', src, q)
                ntrans += 1
                wraw = open(q, 'rb').read()
                dec = rf.dec_landuse(wraw, r['ny'], r['nx'])
                diffs = cl.lu_recipe_diff(dec, r)
                for c, det in diffs:
                    vs.append(viol('write-' + c, (tag, 'landuse'), det, **scope))
                if not diffs and wraw != raw:
                    vs.append(viol('write-bytes', (tag, 'landuse'), 'decodes to the recipe but differs from the '
                                   'reference encoding (%d vs %d bytes)' % (len(wraw), len(raw)), **scope))
            except rf.LayoutError as e:
                vs.append(viol('write-layout', (tag, 'landuse'), str(e), **scope))
            except Exception as e:
                vs.append(viol('write-raises', (tag, 'landuse'), '%s: %r' % (type(e).__name__, e),
                               exc=type(e).__name__, **scope))
        return result('viol' if vs else 'ok', vs, [h64(raw)], ntrans, h64('c09', sorted(d.items(), key=str)),
                      h64(raw) if not vs else None)

    def hand_built(self, d, r, raw, scope, reverse=False):
        """library writer fed with a file built in memory (no ETFLAG, no boundary
        definition records, non-contiguous arrays) -> reference decoder"""
        fmt = r['fmt']
        vs = []
        f = build_hand(r, reverse)
        q = self.path('hand')
        if os.path.exists(q):
            os.unlink(q)
        sig = ('writer-hand-built-reversed' if reverse else 'writer-hand-built', fmt)
        try:
            cl.write(fmt, f, q)
            wraw = open(q, 'rb').read()
            dec = cl.decode(r, wraw)
            for c, det in cl.recipe_diff(dec, r):
                vs.append(viol('write-' + c, sig, det, **scope))
            if fmt == 'lateral_boundary' and not vs:
                want = rf.dec_lateral_boundary(raw)['edgedefs']
                if dec['edgedefs'] != want:
                    vs.append(viol('write-edge-definitions', sig, 'synthesised edge definition records differ',
                                   **scope))
        except rf.LayoutError as e:
            vs.append(viol('write-layout', sig, str(e), **scope))
        except Exception as e:
            vs.append(viol('write-raises', sig, '%s: %r' % (type(e).__name__, e), exc=type(e).__name__, **scope))
        return vs

    def path(self, tag):
        return os.path.join(self.tmp, '%s_%d.bin' % (tag, os.getpid()))

    def run_one(self, d):
        if d['fmt'] == 'landuse':
            return self.run_landuse(d)
        if d['fmt'] == 'bpch':
            return self.run_bpch(d)
        r = camx_u.materialize(d)
        fmt = d['fmt']
        raw = camx_u.encode(r)
        p = self.path('ref')
        with open(p, 'wb') as fh:
            fh.write(raw)
        scope = scope_of(d, r)
        st = [h64(raw)]
        vs = []
        ntrans = 1
        # direction (ii): reference encoder -> library reader
        f = None
        try:
            f = cl.open_mm(fmt, p, r)
            for c, det in cl.compare_to_recipe(f, r):
                vs.append(viol('read-' + c, ('reader', fmt), det, **scope))
        except Exception as e:
            vs.append(viol('read-raises', ('reader', fmt), '%s: %r' % (type(e).__name__, e),
                           exc=type(e).__name__, **scope))
        # direction (i): library writer -> reference decoder
        if f is not None and fmt in WRITABLE:
            q = self.path('out')
            if os.path.exists(q):
                os.unlink(q)
            try:
                cl.write(fmt, f, q)
                ntrans += 1
                wraw = open(q, 'rb').read()
                try:
                    dec = cl.decode(r, wraw)
                    for c, det in cl.recipe_diff(dec, r):
                        # a wrong read is reported once (above), not again through the writer
                        if any(v['clause'] == 'read-' + {'times': 'tflag', 'values': 'data'}.get(c, c)
                               for v in vs):
                            continue
                        vs.append(viol('write-' + c, ('writer', fmt), det, **scope))
                    if not vs and wraw != raw and not d.get('hdr_nz0') and not d.get('end24'):
                        vs.append(viol('write-bytes', ('writer', fmt),
                                       'decodes to the recipe but differs from the reference encoding '
                                       '(%d vs %d bytes)' % (len(wraw), len(raw)), **scope))
                except rf.LayoutError as e:
                    vs.append(viol('write-layout', ('writer', fmt), str(e), **scope))
            except Exception as e:
                vs.append(viol('write-raises', ('writer', fmt), '%s: %r' % (type(e).__name__, e),
                               exc=type(e).__name__, **scope))
        # direction (ii'): the sequential record reader, where it accepts the file with the right step count
        # (its calendar arithmetic is C13's business: files it rejects or mis-counts are skipped here)
        if fmt in RECORD_READERS and not vs:
            import signal
            signal.setitimer(signal.ITIMER_REAL, 3.0)
            try:
                fr = cl.open_rd(fmt, p, r)
                if len(fr.dimensions['TSTEP']) == len(r['steps']) and len(fr.dimensions['LAY']) == r['nz']:
                    for nm in cl.varnames(r):
                        if nm in fr.variables.keys():
                            got = np.asarray(fr.variables[nm][...])
                            exp = cl.expected_var(r, nm)
                            if not cl.squeeze_equal(got, exp):
                                vs.append(viol('read-data', ('record-reader', fmt), '%s: record reader gives %s, '
                                               'encoded %s' % (nm, got.ravel()[:4], exp.ravel()[:4]), **scope))
                                break
                    ntrans += 1
            except core.Timeout:
                pass
            except Exception:
                pass
            finally:
                signal.setitimer(signal.ITIMER_REAL, self.HORIZON)
        if fmt in ('uamiv', 'lateral_boundary'):
            vs.extend(self.hand_built(d, r, raw, scope))
            ntrans += 1
        elif len(cl.varnames(r)) >= 2:
            # the format fixes the record order: a source whose variables were created in another order
            vs.extend(self.hand_built(d, r, raw, scope, reverse=True))
            ntrans += 1
        if fmt == 'uamiv':
            # little-endian file (numeric words swapped, characters not) read with endian='little'
            with rf.byteorder('<'):
                lraw = camx_u.encode(r)
            pl = self.path('le')
            with open(pl, 'wb') as fh:
                fh.write(lraw)
            try:
                fl = cl.open_mm(fmt, pl, r, endian='little')
                for c, det in cl.compare_to_recipe(fl, r):
                    vs.append(viol('read-' + c, ('reader-little-endian', fmt), det, **scope))
                ntrans += 1
            except Exception as e:
                vs.append(viol('read-raises', ('reader-little-endian', fmt), '%s: %r' % (type(e).__name__, e),
                               exc=type(e).__name__, **scope))
        return result('viol' if vs else 'ok', vs, st, ntrans, h64('c09', sorted(d.items(), key=str)),
                      h64(raw) if not vs else None)
