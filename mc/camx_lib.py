"""Library-side helpers for the CAMx binary formats: open a generated file with
the memory-mapped or record reader, extract what it presents, compare with the
recipe that generated the file, and write it back with the library writers."""
import numpy as np

from .engine import core
from .ref import camx_u, rfortran as rf

VARS = {'humidity': ['HUM'], 'vertical_diffusivity': ['KV'], 'one3d': ['UNKNOWN'],
        'temperature': ['AIRTEMP', 'SURFTEMP'], 'height_pressure': ['HGHT', 'PRES'], 'wind': ['U', 'V']}
EDGE = ('WEST', 'EAST', 'SOUTH', 'NORTH')


def open_mm(fmt, path, r, **kw):
    core.load_lib()
    from PseudoNetCDF.camxfiles import Memmaps
    cls = getattr(Memmaps, fmt)
    if fmt in ('uamiv', 'lateral_boundary'):
        return cls(path, **kw)
    return cls(path, r['ny'], r['nx'], **kw)


def open_rd(fmt, path, r):
    core.load_lib()
    from PseudoNetCDF.camxfiles import Readers
    cls = getattr(Readers, fmt)
    if fmt == 'uamiv':
        return cls(path)
    return cls(path, r['ny'], r['nx'])


def write(fmt, f, path):
    core.load_lib()
    from PseudoNetCDF.camxfiles import Writers
    import os
    out = getattr(Writers, 'ncf2' + fmt)(f, path)
    # the file is complete when the writer returns, whether or not the caller keeps (or closes) what it returns
    before = os.path.getsize(path)
    try:
        out.close()
    except Exception:
        pass
    after = os.path.getsize(path)
    if before != after:
        raise IOError('ncf2%s returned with %d bytes on disk; %d once the returned object was closed'
                      % (fmt, before, after))


CRNAMES = {'cloud': 'CLOUD', 'rain': 'RAIN', 'snow': 'SNOW', 'graupel': 'GRAUPEL', 'cod': 'COD', 'precip': 'PRECIP'}


def varnames(r):
    fmt = r['fmt']
    if fmt == 'cloud_rain':
        return [CRNAMES[k] for k in r['crvars']]
    if fmt == 'uamiv':
        return list(r['species'])
    if fmt == 'lateral_boundary':
        return ['%s_%s' % (e, s) for s in r['species'] for e in EDGE]
    return VARS[fmt]


def expected_var(r, name):
    fmt = r['fmt']
    n = len(r['steps'])
    if fmt == 'uamiv':
        si = r['species'].index(name)
        return np.array([[r['data'][t][si][z] for z in range(r['nz'])] for t in range(n)], dtype='f4')
    if fmt == 'lateral_boundary':
        e, s = name.split('_', 1)
        si, ei = r['species'].index(s), EDGE.index(e)
        return np.array([r['data'][t][si][ei] for t in range(n)], dtype='f4')
    key = {'HUM': 'data', 'KV': 'data', 'UNKNOWN': 'data', 'AIRTEMP': 'data', 'HGHT': 'hght', 'PRES': 'pres',
           'U': 'u', 'V': 'v'}.get(name)
    if fmt == 'cloud_rain':
        key = {v: k for k, v in CRNAMES.items()}[name]
    if name == 'SURFTEMP':
        return np.array([r['sfc'][t] for t in range(n)], dtype='f4')
    return np.array([[r[key][t][z] for z in range(r['nz'])] for t in range(n)], dtype='f4')


def bits_equal(a, b):
    a, b = np.ascontiguousarray(a, dtype='f4'), np.ascontiguousarray(b, dtype='f4')
    return a.shape == b.shape and a.tobytes() == b.tobytes()


def squeeze_equal(a, b):
    """equal up to length-1 axes, bit for bit"""
    a, b = np.asarray(a, dtype='f4'), np.asarray(b, dtype='f4')
    return a.size == b.size and np.squeeze(a).shape == np.squeeze(b).shape and \
        np.squeeze(a).tobytes() == np.squeeze(b).tobytes()


def compare_to_recipe(f, r, nsteps=None, times=True):
    """problems [(clause, detail)] between what the library presents and the recipe"""
    out = []
    fmt = r['fmt']
    n = len(r['steps']) if nsteps is None else nsteps
    want_dims = {'TSTEP': n, 'LAY': r['nz'], 'ROW': r['ny'], 'COL': r['nx']}
    for k, v in want_dims.items():
        if k not in f.dimensions or len(f.dimensions[k]) != v:
            out.append(('dimension', '%s=%s expected %d' % (k, len(f.dimensions[k]) if k in f.dimensions else None, v)))
    have = [k for k in f.variables.keys() if k not in ('TFLAG', 'ETFLAG')]
    names = varnames(r)
    if fmt in ('uamiv', 'lateral_boundary'):
        if have != names:
            out.append(('species-order', 'variables %r expected %r' % (have, names)))
    elif sorted(have) != sorted(names):
        out.append(('variables', 'variables %r expected %r' % (have, names)))
    for nm in names:
        if nm not in f.variables.keys():
            continue
        got = np.asarray(f.variables[nm][...])
        exp = expected_var(r, nm)[:n]
        if got.shape != exp.shape:
            if not (got.size == exp.size and squeeze_equal(got, exp)):
                out.append(('shape', '%s shape %r expected %r' % (nm, got.shape, exp.shape)))
                continue
        if not (bits_equal(got.reshape(exp.shape), exp)):
            g, e = got.ravel(), exp.ravel()
            bad = np.flatnonzero(g.view('i4') != e.view('i4')) if g.dtype == e.dtype == np.dtype('f4') else [0]
            i = int(bad[0]) if len(bad) else 0
            out.append(('data', '%s: element %d is %r expected %r (%d differ)' % (nm, i, g[i], e[i], len(bad))))
    if times and 'TFLAG' in f.variables.keys():
        tb, te = camx_u.expected_tflag(r)
        got = np.asarray(f.variables['TFLAG'][...])
        gt = [tuple(int(x) for x in row) for row in got[:, 0, :]]
        if gt != tb[:n]:
            out.append(('tflag', 'TFLAG %r expected %r' % (gt, tb[:n])))
        if got.ndim == 3 and not (got == got[:, :1, :]).all():
            out.append(('tflag', 'TFLAG differs across the VAR axis'))
        if 'ETFLAG' in f.variables.keys():
            ge = [tuple(int(x) for x in row) for row in np.asarray(f.variables['ETFLAG'][...])[:, 0, :]]
            if [camx_u.norm_flag(x) for x in ge] != [camx_u.norm_flag(x) for x in te[:n]]:
                out.append(('etflag', 'ETFLAG %r expected %r' % (ge, te[:n])))
    if fmt == 'wind' and r.get('lstagger') is not None:
        if not hasattr(f, 'LSTAGGER') or int(f.LSTAGGER) != r['lstagger']:
            out.append(('staggering-flag', 'LSTAGGER=%r expected %r' % (getattr(f, 'LSTAGGER', None), r['lstagger'])))
    if fmt in ('uamiv', 'lateral_boundary'):
        g = r['grid']
        for attr, key in (('XORIG', 'xorg'), ('YORIG', 'yorg'), ('XCELL', 'delx'), ('YCELL', 'dely'),
                          ('PLON', 'plon'), ('PLAT', 'plat'), ('TLAT1', 'tlat1'), ('TLAT2', 'tlat2'),
                          ('IUTM', 'iutm'), ('ISTAG', 'istag'), ('CPROJ', 'iproj')):
            if not hasattr(f, attr) or float(getattr(f, attr)) != float(np.float32(g[key])):
                out.append(('grid-header', '%s=%r expected %r' % (attr, getattr(f, attr, None), g[key])))
        if getattr(f, 'NAME', '').strip() != r['name'] or getattr(f, 'NOTE', '').rstrip() != r['note'] \
                or int(getattr(f, 'ITZON', -99)) != r['itzon']:
            out.append(('file-header', 'NAME=%r NOTE=%r ITZON=%r' % (getattr(f, 'NAME', None),
                                                                   getattr(f, 'NOTE', None),
                                                                   getattr(f, 'ITZON', None))))
    return out


def recipe_diff(dec, r):
    """problems between a decoded recipe (rfortran decoder output) and the recipe r"""
    out = []
    fmt = r['fmt']
    n = len(r['steps'])
    if fmt in ('uamiv', 'lateral_boundary'):
        if dec['species'] != r['species']:
            out.append(('species', '%r expected %r' % (dec['species'], r['species'])))
        if (dec['nx'], dec['ny'], max(dec['nz'], 1)) != (r['nx'], r['ny'], r['nz']) or \
                ('hdr_nz' in r and False):
            out.append(('header-counts', 'nx,ny,nz=%r expected %r' % ((dec['nx'], dec['ny'], dec['nz']),
                                                                      (r['nx'], r['ny'], r['nz']))))
        # (hour 24 of a day and hour 0 of the next are two spellings of one instant: compared as instants)
        if [camx_u.norm_step(s) for s in dec['steps']] != [camx_u.norm_step(s) for s in r['steps']]:
            out.append(('times', 'time records %r expected %r' % (dec['steps'], r['steps'])))
        ht = camx_u.norm_step(tuple(dec['hdr_times']))
        wt = camx_u.norm_step((r['steps'][0][0], r['steps'][0][1], r['steps'][-1][2], r['steps'][-1][3]))
        if ht != wt:
            out.append(('header-dates', 'file header dates %r expected %r' % (ht, wt)))
        if dec['name'] != r['name'] or dec['note'] != r['note'] or dec['itzon'] != r['itzon']:
            out.append(('file-header', '%r %r %r' % (dec['name'], dec['note'], dec['itzon'])))
        for k, v in r['grid'].items():
            if float(np.float32(dec['grid'][k])) != float(np.float32(v)):
                out.append(('grid-header', '%s=%r expected %r' % (k, dec['grid'][k], v)))
        if len(dec['data']) == n:
            for t in range(n):
                for s in range(len(r['species'])):
                    for z in range(len(r['data'][t][s])):
                        if not bits_equal(dec['data'][t][s][z], r['data'][t][s][z]):
                            out.append(('values', 'step %d species %d slab %d differs' % (t, s, z)))
                            return out
        return out
    if [tuple(x) for x in dec['times']] != [tuple(x) for x in r['times']]:
        out.append(('times', 'record times %r expected %r' % (dec['times'], r['times'])))
    if fmt == 'wind' and dec.get('lstagger') != r.get('lstagger'):
        out.append(('staggering-flag', 'time header flag %r expected %r' % (dec.get('lstagger'), r.get('lstagger'))))
    if fmt == 'cloud_rain':
        if (dec['nx'], dec['ny'], dec['nz']) != (r['nx'], r['ny'], r['nz']) or dec['cldhdr'] != r['cldhdr']:
            out.append(('header-counts', 'header %r nx,ny,nz=%r expected %r %r' % (
                dec['cldhdr'], (dec['nx'], dec['ny'], dec['nz']), r['cldhdr'], (r['nx'], r['ny'], r['nz']))))
        if dec['crvars'] != r['crvars']:
            out.append(('variables', 'variables per layer %r expected %r' % (dec['crvars'], r['crvars'])))
            return out
    for key in ('data', 'hght', 'pres', 'u', 'v') + tuple(CRNAMES):
        if key in r:
            for t in range(min(n, len(dec[key]))):
                for z in range(r['nz']):
                    if not bits_equal(dec[key][t][z], r[key][t][z]):
                        out.append(('values', '%s step %d layer %d differs' % (key, t, z)))
                        return out
    if 'sfc' in r:
        for t in range(min(n, len(dec['sfc']))):
            if not bits_equal(dec['sfc'][t], r['sfc'][t]):
                out.append(('values', 'sfc step %d differs' % t))
                return out
    return out


def decode(r, raw):
    fmt = r['fmt']
    dec = rf.CODECS[fmt][1]
    if fmt in ('uamiv', 'lateral_boundary'):
        return dec(raw)
    if fmt == 'cloud_rain':
        return dec(raw, len(r['crvars']))
    return dec(raw, r['ny'], r['nx'], r['nz'])


# --------------------------------------------------------------------------
# land-use files (no time axis)

def open_lu(path, r, **kw):
    core.load_lib()
    from PseudoNetCDF.camxfiles import Memmaps
    return Memmaps.landuse(path, r['ny'], r['nx'], **kw)


def lu_expected(r):
    """ordered (variable name, array) the reader should present"""
    first = 'FLAND' if r['style'] == 'old' else 'LUCAT%02d' % r['nland']
    return [(first, r['fland'])] + [(k, a) for k, a in r['others']]


def lu_compare(f, r):
    out = []
    want = {'LANDUSE': r['nland'], 'ROW': r['ny'], 'COL': r['nx']}
    for k, v in want.items():
        if k not in f.dimensions or len(f.dimensions[k]) != v:
            out.append(('dimension', '%s=%s expected %d' % (k, len(f.dimensions[k]) if k in f.dimensions else None, v)))
    exp = lu_expected(r)
    have = list(f.variables.keys())
    if have != [k for k, a in exp]:
        out.append(('variables', 'variables %r expected %r' % (have, [k for k, a in exp])))
    for k, a in exp:
        if k in have:
            got = np.asarray(f.variables[k][...])
            if not bits_equal(got, a):
                out.append(('data', '%s: shape %r expected %r, first values %s expected %s' % (
                    k, got.shape, a.shape, got.ravel()[:3], a.ravel()[:3])))
    return out


def lu_recipe_diff(dec, r):
    out = []
    if dec['style'] != r['style'] or dec['nland'] != r['nland']:
        out.append(('style', 'style %s/%d expected %s/%d' % (dec['style'], dec['nland'], r['style'], r['nland'])))
        return out
    if not bits_equal(dec['fland'], r['fland']):
        out.append(('values', 'land-use fractions differ'))
    if [k for k, a in dec['others']] != [k for k, a in r['others']]:
        out.append(('optional-records', 'optional records %r expected %r' % (
            [k for k, a in dec['others']], [k for k, a in r['others']])))
    else:
        for (k, a), (k2, b) in zip(dec['others'], r['others']):
            if not bits_equal(a, b):
                out.append(('values', '%s differs' % k))
    return out


def lu_hand(r, reverse=False):
    """a land-use file built in memory (non-contiguous arrays); reverse = optional variables first"""
    P = core.load_lib()
    from PseudoNetCDF.core._variables import PseudoNetCDFVariable
    f = P.PseudoNetCDFFile()
    f.createDimension('LANDUSE', r['nland'])
    f.createDimension('ROW', r['ny'])
    f.createDimension('COL', r['nx'])
    if r['style'] == 'old':
        f._newstyle = False
    for k, a in (lu_expected(r)[::-1] if reverse else lu_expected(r)):
        dims = ('LANDUSE', 'ROW', 'COL') if a.ndim == 3 else ('ROW', 'COL')
        f.variables[k] = PseudoNetCDFVariable(f, k, 'f', dims, values=np.asfortranarray(a), units='')
    return f
