"""C15 - format auto-detection depends only on the file, not on history (Engine B).

States of the process (reader registry and any other hidden detection state)
are explored by executing every history of auto-detecting opens up to the depth
bound, each history in a freshly forked child of a pristine parent (so that NO
state leaks between histories), and probing every pool file afterwards.
"""
import os
import sys
import json
import time
import shutil
import signal
import tempfile
import itertools
import multiprocessing as mp

import numpy as np

from ..engine import core, report
from ..engine.core import viol, result, h64

POOL = None
TMP = None


def build_pool(tmp):
    """files of every self-describing format, with a recognisable extension and without"""
    core.load_lib()
    import PseudoNetCDF as P
    from ..ref import camx_u, rfortran as rf, rarl, rfile
    from .. import lib, ioapi_u
    pool = []

    def put(name, raw):
        p = os.path.join(tmp, name)
        with open(p, 'wb') as fh:
            fh.write(raw)
        return p

    def add(tag, fmt, ext, raw, selfdesc=True, kw=None):
        pool.append({'tag': tag + '.' + ext, 'fmt': fmt, 'path': put('%s.%s' % (tag, ext), raw), 'ext': True,
                     'selfdesc': selfdesc, 'kw': kw or {}})
        pool.append({'tag': tag + '_noext', 'fmt': fmt, 'path': put('%s_noext' % tag, raw), 'ext': False,
                     'selfdesc': selfdesc, 'kw': kw or {}})
    for fmt, tag, sd in (('uamiv', 'avg', True), ('lateral_boundary', 'bc', True),
                         ('vertical_diffusivity', 'kv', False), ('humidity', 'hum', False)):
        d = camx_u.base_desc(fmt)
        if fmt in camx_u.MET:
            d['spc'] = 0
        r = camx_u.materialize(d)
        add(tag, fmt, fmt, camx_u.encode(r), sd)
    # a second file of each CAMx self-describing format on ANOTHER horizontal grid and species count (anything a
    # reader remembers about the first file of its format - record layouts, sizes - must not leak into the second)
    for fmt, tag in (('uamiv', 'avg2'), ('lateral_boundary', 'bc2')):
        d = dict(camx_u.base_desc(fmt), shape=[2, 3, 1], spc=2, nsteps=1)
        p2 = put('%s.%s' % (tag, fmt), camx_u.encode(camx_u.materialize(d)))
        pool.append({'tag': '%s.%s' % (tag, fmt), 'fmt': fmt, 'path': p2, 'ext': True, 'selfdesc': True, 'kw': {}})
    # a 2-D uamiv file whose grid header carries nz = 0 (usual for low-level emissions; read as one layer)
    d = dict(camx_u.base_desc('uamiv'), name=camx_u.NAMES.index('EMISSIONS'), shape=[3, 2, 1], hdr_nz0=True)
    add('emis', 'uamiv', 'uamiv', camx_u.encode(camx_u.materialize(d)))
    # ICARTT
    import PseudoNetCDF.testcase as tc
    add('ict', 'ffi1001', 'ffi1001', open(tc.icarttfiles_paths['ffi1001'], 'rb').read())
    # netCDF classic / netCDF4 / IOAPI
    f = lib.to_real(rfile.ufile({'lens': {'t': 2, 'z': 1, 'x': 3}, 'unl': True, 'kinds': ['A', 'B', 'X']}))
    for flav, tag, ext in (('NETCDF3_CLASSIC', 'nc3', 'nc'), ('NETCDF4', 'nc4', 'ncf')):
        p = os.path.join(tmp, 'tmp_%s.nc' % tag)
        f.save(p, format=flav, verbose=0).close()
        add(tag, 'netcdf', ext, open(p, 'rb').read())
        os.unlink(p)
    io = ioapi_u.build(ioapi_u.recipe(nt=2, nl=1, nr=2, nc=2, nv=1, start=0))
    p = os.path.join(tmp, 'tmp_io.nc')
    io.save(p, format='NETCDF3_CLASSIC', verbose=0).close()
    add('io', 'ioapi', 'ioapi', open(p, 'rb').read())
    os.unlink(p)
    # ARL
    ny, nx = 16, 20
    j, i = np.mgrid[0:ny, 0:nx]
    fld = (280. + i + j).astype('f')
    rec = dict(nx=nx, ny=ny, times=[(95, 12, 31, 12)], sfclevel=1.0, levels=[0.5], sfc={'PRSS': [fld]},
               upper={'TEMP': [[fld + 1]]})
    add('arl', 'arlpackedbit', 'arlpackedbit', rarl.encode_file(rec))
    # bpch (tables live in the pool directory)
    shutil.copy(os.path.join(os.path.dirname(tc.__file__), 'geoschemfiles', 'tracerinfo.dat'), tmp)
    shutil.copy(os.path.join(os.path.dirname(tc.__file__), 'geoschemfiles', 'diaginfo.dat'), tmp)
    add('punch', 'bpch', 'bpch', open(tc.geoschemfiles_paths['bpch'], 'rb').read())
    # an irregular punch file (the first diagnostic written once, the second at two times): the memory-mapped
    # reader cannot map it, the master class falls back to the block-walking reader
    fld = lambda s_: (1e-9 * (1 + np.arange(2 * 4 * 5) + s_)).reshape(2, 4, 5).astype('f4')
    blk = lambda tr, t0, s_: dict(category='IJ-AVG-$', tracer=tr, unit='v/v', tau0=175343.0 + t0, tau1=175344.0 + t0,
                                  reserved='', start=(1, 1, 1), data=fld(s_))
    irr = rf.enc_bpch(dict(ftype='CTM bin 02', toptitle='GEOS-CHEM binary punch file v. 2.0', modelname='GEOS5_47L',
                           modelres=(2.5, 2.0), halfpolar=1, center180=1,
                           blocks=[[blk(1, 0., 0), blk(2, 0., 100)], [blk(2, 1., 200)]]))
    add('irregular', 'bpch', 'bpch', irr)
    # the same punch file next to a tracerinfo.dat that lacks the line of one tracer it holds (supported: such
    # a tracer is presented under its number)
    gdir = os.path.join(tmp, 'gc_missing')
    os.makedirs(gdir)
    shutil.copy(os.path.join(os.path.dirname(tc.__file__), 'geoschemfiles', 'diaginfo.dat'), gdir)
    with open(os.path.join(os.path.dirname(tc.__file__), 'geoschemfiles', 'tracerinfo.dat')) as fh:
        tlines = fh.readlines()
    with open(os.path.join(gdir, 'tracerinfo.dat'), 'w') as fh:
        # (tracer number: columns 53-61 of a data line)
        fh.writelines([ln for ln in tlines if ln.startswith('#') or ln[52:61].strip() != '11'])
    for name, ext in (('gc_missing/punch11.bpch', True), ('gc_missing/punch11_noext', False)):
        pool.append({'tag': name, 'fmt': 'bpch', 'path': put(name, open(tc.geoschemfiles_paths['bpch'], 'rb').read()),
                     'ext': ext, 'selfdesc': True, 'kw': {}})
    # ICARTT with DOS line endings and with trailing blanks on the first line (both legitimate)
    ict = open(tc.icarttfiles_paths['ffi1001'], 'rb').read()
    add('ict_crlf', 'ffi1001', 'ffi1001', ict.replace(b'\r\n', b'\n').replace(b'\n', b'\r\n'))
    first, rest = ict.split(b'\n', 1)
    add('ict_blank', 'ffi1001', 'ffi1001', first.rstrip(b'\r') + b'  \n' + rest)
    # a netCDF4 file cut short: it carries the HDF5 signature, but no reader can open it
    nc4 = open([e for e in pool if e['tag'] == 'nc4.ncf'][0]['path'], 'rb').read()
    for name, ext in (('cuthdf.nc', True), ('cuthdf_noext', False)):
        pool.append({'tag': name, 'fmt': 'none', 'path': put(name, nc4[:600]), 'ext': ext, 'selfdesc': False, 'kw': {}})
    # ICARTT whose second line (the PI name) holds a two-byte UTF-8 character across bytes 13|14, i.e. across
    # the start of the field in which another format keeps an ASCII label
    l1, l2, rest2 = ict.split(b'\n', 2)
    pad = b'Ib\xc3\xa1\xc3\xb1ez, Ana'        # 'Ibáñez, Ana'
    extra = max(13 - (len(l1) + 1) - 4, 0)    # 'Ibá' is 4 bytes: pad so that the 'ñ' starts at byte 13
    name = b'X' * extra + pad
    add('ict_utf8', 'ffi1001', 'ffi1001', l1 + b'\n' + name + b'\n' + rest2)
    # files with a recognisable extension that no reader can open (detection fails part-way)
    for name in ('cut.humidity', 'cut.nc', 'cut.uamiv'):
        pool.append({'tag': name, 'fmt': 'none', 'path': put(name, b'abc'), 'ext': True, 'selfdesc': False, 'kw': {}})
    # files for a reader family the USER defines during the history (event 'define:sonde'): the suffix names the
    # base reader, the derived reader is registered later and would otherwise be tried first
    sonde = b'SONDE v1\n3\n1.5 2.5 4.0\n'
    pool.append({'tag': 'probe.sonde', 'fmt': 'sonde', 'path': put('probe.sonde', sonde), 'ext': True,
                 'selfdesc': False, 'kw': {}})
    pool.append({'tag': 'probe.sondeqc', 'fmt': 'sondeqc', 'path': put('probe.sondeqc', sonde), 'ext': True,
                 'selfdesc': False, 'kw': {}})
    # a file no reader recognises (falls through to the last-resort reader or raises)
    add('junk', 'none', 'txt', b'this is not a model file\n' * 40, selfdesc=False)
    # one path whose CONTENT changes between opens
    pool.append({'tag': 'shared<-uamiv', 'fmt': 'uamiv', 'path': os.path.join(tmp, 'shared.dat'), 'ext': False,
                 'selfdesc': True, 'kw': {}, 'content': pool[0]['path']})
    pool.append({'tag': 'shared<-nc3', 'fmt': 'netcdf', 'path': os.path.join(tmp, 'shared.dat'), 'ext': False,
                 'selfdesc': True, 'kw': {}, 'content': [e for e in pool if e['tag'] == 'nc3.nc'][0]['path']})
    return pool


def do_open(entry, fmt=None):
    """auto-detecting (or explicit) open of one pool entry; returns an observation"""
    import io
    import contextlib
    import PseudoNetCDF as P
    if 'content' in entry:
        # private to this (forked) process: children run in parallel
        entry = dict(entry, path='%s.%d' % (entry['path'], os.getpid()))
        shutil.copyfile(entry['content'], entry['path'])
    try:
        with contextlib.redirect_stdout(io.StringIO()):
            if fmt is None:
                f = P.pncopen(entry['path'])
            else:
                f = P.pncopen(entry['path'], format=fmt, **entry['kw'])
            cls = type(f).__name__
            dims = sorted((k, len(d)) for k, d in f.dimensions.items())
            sums = []
            for k in sorted(f.variables.keys()):
                try:
                    a = np.asarray(np.ma.filled(f.variables[k][...], -999))
                    sums.append((k, a.shape, h64(a.tobytes())))
                except Exception as e:
                    sums.append((k, 'unreadable', type(e).__name__))
            try:
                f.close()
            except Exception:
                pass
        return {'reader': cls, 'dims': dims, 'data': h64(repr(sums)), 'nvars': len(sums)}
    except Exception as e:
        return {'reader': 'raise:' + type(e).__name__, 'dims': [], 'data': 0, 'nvars': 0}


def define_sonde():
    """what a user does to add a format: subclass PseudoNetCDFFile (the metaclass registers the class under its
    name); a base reader with an isMine test and a derived reader that inherits the test"""
    from PseudoNetCDF import PseudoNetCDFFile

    class sonde(PseudoNetCDFFile):
        scale = 1.

        @classmethod
        def isMine(cls, path, *args, **kwds):
            try:
                with open(path, 'rb') as fh:
                    return fh.readline().strip() == b'SONDE v1'
            except Exception:
                return False

        def __init__(self, path):
            vals = np.array([float(x) for x in open(path).read().split()[3:]])
            self.createDimension('level', vals.size)
            self.createVariable('ozone', 'd', ('level',), values=vals * self.scale)

    class sondeqc(sonde):
        scale = 1000.
    return sonde, sondeqc


def events(pool):
    """history alphabet: an auto-detecting open of every pool file, plus opens with an explicitly named
    format (which must not influence later auto-detection either)"""
    ev = [[i, None] for i in range(len(pool))]
    for i, e in enumerate(pool):
        if e['tag'] in ('avg.uamiv', 'nc3.nc', 'ict.ffi1001', 'io.ioapi', 'punch.bpch', 'hum.humidity',
                        'kv.vertical_diffusivity'):
            ev.append([i, e['fmt']])
        if e['tag'] == 'kv_noext':
            ev.append([i, 'humidity'])      # the indistinguishable sibling format, named explicitly
        if e['tag'] == 'nc3_noext':
            ev.append([i, 'netcdf'])
    # registering again a reader that is registered already (documented to change nothing)
    for name in ('humidity', 'netcdf', 'uamiv'):
        ev.append([-1, 'register:' + name])
    # the user defines NEW readers (legitimately changes what the two .sonde* files open as: such histories are
    # judged against the history that contains only the definition)
    ev.append([-1, 'define:sonde'])
    return ev


REDUCED = ('ict_utf8_noext', 'irregular.bpch', 'irregular_noext', 'gc_missing/punch11.bpch', 'gc_missing/punch11_noext', 'cuthdf.nc', 'cuthdf_noext', 'nc4.ncf', 'nc4_noext', 'probe.sonde', 'avg.uamiv', 'bc.lateral_boundary', 'kv.vertical_diffusivity', 'hum.humidity', 'ict.ffi1001', 'nc3.nc', 'io.ioapi', 'punch.bpch',
           'ict_crlf.ffi1001', 'cut.humidity', 'cut.nc', 'cut.uamiv', 'kv_noext', 'nc3_noext', 'junk_noext',
           'shared<-uamiv', 'shared<-nc3')
REDUCED_EXPLICIT = ('avg.uamiv', 'ict.ffi1001', 'hum.humidity', 'kv_noext', 'nc3_noext')


def reduced(ev, pool):
    """the alphabet used at the deepest level: one representative per detection path"""
    return [e for e in ev if e[0] < 0 or pool[e[0]]['tag'] in (REDUCED if e[1] is None else REDUCED_EXPLICIT)]


def htags(hist):
    return [(POOL[i]['tag'] + ('(format=%s)' % f if f else '')) if i >= 0 else f for i, f in hist]


def registry_canon():
    from PseudoNetCDF import _getreader
    seen = []
    for k, v in _getreader._readers:
        if k not in seen:
            seen.append(k)
    return h64(seen), len(_getreader._readers)


def child(hist, order, wfd):
    """runs in a forked child: execute the history, then probe every pool file"""
    out = {'hist': hist, 'probes': [], 'regs': []}
    try:
        c0, n0 = registry_canon()
        for i, fmt in hist:
            if i < 0 and fmt.startswith('define:'):
                define_sonde()
                continue
            if i < 0:
                from PseudoNetCDF._getreader import registerreader, getreaderdict
                name = fmt.split(':', 1)[1]
                registerreader(name, getreaderdict()[name])
                continue
            if fmt in ('humidity', 'vertical_diffusivity'):
                do_open(dict(POOL[i], kw={'rows': 2, 'cols': 3}), fmt)
            else:
                do_open(POOL[i], fmt)
        out['reg_after_hist'] = registry_canon()
        out['reg_initial'] = (c0, n0)
        for i in order:
            out['probes'].append((i, do_open(POOL[i])))
        out['reg_after_probes'] = registry_canon()
    except BaseException as e:
        out['error'] = repr(e)
    os.write(wfd, json.dumps(out).encode())
    os.close(wfd)
    os._exit(0)


def run_history(hist, order):
    rfd, wfd = os.pipe()
    pid = os.fork()
    if pid == 0:
        os.close(rfd)
        signal.alarm(60)
        child(hist, order, wfd)
    os.close(wfd)
    chunks = []
    while True:
        b = os.read(rfd, 1 << 16)
        if not b:
            break
        chunks.append(b)
    os.close(rfd)
    os.waitpid(pid, 0)
    if not chunks:
        return {'hist': hist, 'error': 'child died', 'probes': []}
    return json.loads(b''.join(chunks).decode())


def _winit(tmp):
    global POOL, TMP
    import warnings
    warnings.simplefilter('ignore')
    TMP = tmp
    try:
        core.load_lib()
        POOL = json.load(open(os.path.join(tmp, 'pool.json')))
    except BaseException:
        import traceback
        POOL = {'init_error': traceback.format_exc()}


def _wide(e):
    """auto-detected and explicitly named open of one file, each in its own forked child"""
    out = []
    for fmt in (None, e['fmt']):
        rfd, wfd = os.pipe()
        pid = os.fork()
        if pid == 0:
            os.close(rfd)
            signal.alarm(60)
            try:
                os.write(wfd, json.dumps(do_open(e, fmt)).encode())
            finally:
                os._exit(0)
        os.close(wfd)
        buf = b''
        while True:
            b = os.read(rfd, 1 << 16)
            if not b:
                break
            buf += b
        os.close(rfd)
        os.waitpid(pid, 0)
        out.append(json.loads(buf.decode()) if buf else {'reader': 'raise:child', 'dims': [], 'data': 0})
    return out


def _wrun(hists):
    if isinstance(POOL, dict) and 'init_error' in POOL:
        raise RuntimeError('worker initialisation failed:\n' + POOL['init_error'])
    out = []
    n = len(POOL)
    for h in hists:
        out.append(run_history(h, list(range(n))))
        out.append(run_history(h, list(range(n))[::-1]))
    return out


class Prop(core.Prop):
    ID = 'C15'
    ENGINE = 'B'
    RULE = ('every history (sequence of auto-detecting opens) of length 0..D over the pool of files (each '
            'self-describing format with its recognisable extension and as an extension-less copy, plus one path '
            'whose content changes) is executed in a freshly forked child of a pristine parent, after which every pool '
            'file is probed in both orders; non-trivial = history of length >= 1; distinct = distinct (history, probe order)')
    ASSUMPTIONS = [
        'a forked child starts from the pristine registry and module state of the parent, so no state leaks '
        'between histories; the explored state is the whole process state, not only the registry list',
        'observation of an open = selected reader class (or exception type), dimension lengths, hash of all '
        'variable data',
        'vertical_diffusivity and humidity files are byte-wise indistinguishable (not self-describing): they '
        'take part in the history clause only, not in the auto == explicit clause',
    ]

    def bounds(self, tier):
        return {'depth': 2 if tier == 'quick' else 3, 'probe_orders': 2,
                'alphabet': 'auto-detecting open of each pool file + 9 opens with an explicitly named format; '
                            'full alphabet below the depth bound, 21-event reduced alphabet at the bound'}

    def replay(self, doc):
        case = doc['case']
        tmp = tempfile.mkdtemp(prefix='verif_c15_', dir='/dev/shm' if os.path.isdir('/dev/shm') else None)
        try:
            global POOL
            POOL = build_pool(tmp)
            if 'explicit' in case:
                # clause 2: auto-detected result == result with the format named
                if 'desc' in case:
                    from ..ref import camx_u
                    wp = os.path.join(tmp, case['explicit'])
                    with open(wp, 'wb') as fh:
                        fh.write(camx_u.encode(camx_u.materialize(case['desc'])))
                    e = {'tag': case['explicit'], 'fmt': case['desc']['fmt'], 'path': wp, 'ext': False, 'kw': {}}
                else:
                    e = [x for x in POOL if x['tag'] == case['explicit']][0]
                a, ex = _wide(e)
                vs = []
                if a['reader'].startswith('raise') or (a['dims'], a['data']) != (ex['dims'], ex['data']):
                    vs.append(viol('auto-differs-from-explicit', ('auto', e['fmt'], 'replay'),
                                   '%s: auto-detected %s dims %r; format=%s gives %s dims %r'
                                   % (e['tag'], a['reader'], a['dims'][:4], e['fmt'], ex['reader'], ex['dims'][:4])))
                return result('viol' if vs else 'ok', vs, [], 2), None
            vs = judge(case['hist'], case['order'], baseline_obs(), run_history(case['hist'], case['order']))
            return result('viol' if vs else 'ok', vs, [], len(case['hist']) + len(POOL)), None
        finally:
            shutil.rmtree(tmp, True)


DEFINE = [-1, 'define:sonde']


def defines(hist):
    return any(i < 0 and f.startswith('define:') for i, f in hist)


def baseline_obs():
    """result of probing each file in a pristine process, one child per file; the same after nothing but the
    definition of the user's readers (key ('def', i)), with the registry that definition alone produces (key 'reg')"""
    base = {}
    for i in range(len(POOL)):
        r = run_history([], [i])
        base[i] = r['probes'][0][1] if r.get('probes') else {'reader': 'raise:child', 'dims': [], 'data': 0}
        r = run_history([DEFINE], [i])
        base['def', i] = r['probes'][0][1] if r.get('probes') else {'reader': 'raise:child', 'dims': [], 'data': 0}
        base['reg'] = r.get('reg_after_hist')
    return base


def judge(hist, order, base, r):
    vs = []
    tags = htags(hist)
    scope = dict(hist_len=len(hist), hist_ext=bool(any(POOL[i]['ext'] for i, f in hist if i >= 0)),
                 hist_explicit=bool(any(f for i, f in hist if i >= 0)),
                 hist_register=bool(any(i < 0 for i, f in hist)))
    if r.get('error'):
        vs.append(viol('history-raises', ('history',), '%r after %r' % (r['error'], tags), **scope))
        return vs
    isdef = defines(hist)
    scope['hist_define'] = isdef
    if r['reg_after_hist'] != (base['reg'] if isdef else r['reg_initial']):
        vs.append(viol('registry-changed-by-open', ('registry',),
                       'after opening %r the reader registry went from %r to %r (first-occurrence hash, length)'
                       % (tags, base['reg'] if isdef else r['reg_initial'], r['reg_after_hist']), **scope))
    seen_before = []
    for i, obs in r['probes']:
        b = base['def', i] if isdef else base[i]
        if obs != b:
            vs.append(viol('detection-depends-on-history', ('probe', POOL[i]['fmt'],
                                                           'ext' if POOL[i]['ext'] else 'noext'),
                           'after %r (then probes %r) %s opened as %s dims %r; in a fresh process %s dims %r'
                           % (tags, [POOL[k]['tag'] for k in seen_before], POOL[i]['tag'], obs['reader'],
                              obs['dims'][:4], b['reader'], b['dims'][:4]),
                           probe=POOL[i]['tag'], probe_fmt=POOL[i]['fmt'], probe_ext=POOL[i]['ext'], **scope))
        seen_before.append(i)
    return vs


def main(tier, seed, t0):
    global POOL, TMP
    base_dir = '/dev/shm' if os.path.isdir('/dev/shm') else None
    # fixed directory name: paths end up inside some readers' attributes
    tmp = os.path.join(base_dir or tempfile.gettempdir(), 'verif_c15_pool_%d' % os.getpid())
    shutil.rmtree(tmp, True)
    os.makedirs(tmp)
    prop = Prop()
    prop.tier = tier
    agg = core.new_agg(prop.ID)
    try:
        POOL = build_pool(tmp)
        json.dump(POOL, open(os.path.join(tmp, 'pool.json'), 'w'))
        n = len(POOL)
        base = baseline_obs()
        # clause 2: auto-detected == explicitly named format (self-describing formats)
        cid = 0
        for i, e in enumerate(POOL):
            if not e['selfdesc']:
                continue
            a = base[i]
            rfd, wfd = os.pipe()
            pid = os.fork()
            if pid == 0:
                os.close(rfd)
                os.write(wfd, json.dumps(do_open(e, e['fmt'])).encode())
                os._exit(0)
            os.close(wfd)
            buf = b''
            while True:
                b = os.read(rfd, 1 << 16)
                if not b:
                    break
                buf += b
            os.close(rfd)
            os.waitpid(pid, 0)
            ex = json.loads(buf.decode())
            vs = []
            if a['reader'].startswith('raise') or (a['dims'], a['data']) != (ex['dims'], ex['data']):
                vs.append(viol('auto-differs-from-explicit', ('auto', e['fmt'], 'ext' if e['ext'] else 'noext'),
                               '%s: auto-detected %s dims %r; format=%s gives %s dims %r'
                               % (e['tag'], a['reader'], a['dims'][:4], e['fmt'], ex['reader'], ex['dims'][:4]),
                               probe=e['tag'], probe_fmt=e['fmt'], probe_ext=e['ext'], auto_reader=a['reader']))
            core.fold(agg, (0, cid), {'explicit': e['tag']}, result('viol' if vs else 'ok-explicit', vs,
                                                                    [h64('file', e['tag'])], 2, h64('ex', e['tag']),
                                                                    h64(repr(a))))
            cid += 1
        # the same clause over every uamiv / lateral_boundary file of the binary universe (extension-less): a file
        # of one format whose size happens to satisfy another format's record arithmetic must still be detected
        from ..ref import camx_u
        wide = []
        for fmt in ('uamiv', 'lateral_boundary'):
            for k, dd in enumerate(camx_u.descs(fmt, tier)):
                wp = os.path.join(tmp, 'wide_%s_%d' % (fmt, k))
                with open(wp, 'wb') as fh:
                    fh.write(camx_u.encode(camx_u.materialize(dd)))
                wide.append({'tag': 'wide_%s_%d' % (fmt, k), 'fmt': fmt, 'path': wp, 'ext': False, 'selfdesc': True,
                             'kw': {}, 'desc': dd})
        ctx = mp.get_context('fork')
        with ctx.Pool(core.NWORKERS) as wpool:
            wres = wpool.map(_wide, wide, chunksize=8)
        for e, (a, ex) in zip(wide, wres):
            vs = []
            dd = e['desc']
            if a['reader'].startswith('raise') or (a['dims'], a['data']) != (ex['dims'], ex['data']):
                vs.append(viol('auto-differs-from-explicit', ('auto', e['fmt'], 'universe'),
                               '%s %r: auto-detected %s dims %r; format=%s gives %s dims %r'
                               % (e['fmt'], dd, a['reader'], a['dims'][:4], e['fmt'], ex['reader'], ex['dims'][:4]),
                               probe='universe', probe_fmt=e['fmt'], probe_ext=False, auto_reader=a['reader'],
                               shape='x'.join(str(x) for x in dd['shape']), nsteps=dd['nsteps']))
            core.fold(agg, (0, cid), {'explicit': e['tag'], 'desc': dd},
                      result('viol' if vs else 'ok-explicit', vs, [h64('file', e['tag'])], 2, h64('ex', e['tag']),
                             h64(repr(a))))
            cid += 1
        depth = prop.bounds(tier)['depth']
        hists = [[]]
        ev = events(POOL)
        for L in range(1, depth + 1):
            # full alphabet below the depth bound, reduced alphabet (one representative per detection path) at it
            alpha = ev if L < depth else reduced(ev, POOL)
            hists += [[list(e) for e in h] for h in itertools.product(alpha, repeat=L)]
        extra_cov = {'events': len(ev), 'reduced_events': len(reduced(ev, POOL)), 'pool_files': n}
        nch = core.NWORKERS * 8
        chunks = [hists[k::nch] for k in range(nch)]
        chunks = [c for c in chunks if c]
        import random
        random.Random(seed).shuffle(chunks)
        ctx = mp.get_context('fork')
        results = []
        with ctx.Pool(core.NWORKERS, initializer=_winit, initargs=(tmp,)) as pool:
            for part in pool.imap_unordered(_wrun, chunks):
                results.extend(part)
        results.sort(key=lambda r: (len(r['hist']), [[i, f or ''] for i, f in r['hist']],
                                    r['probes'][0][0] if r.get('probes') else -1))
        regstates = set()
        for r in results:
            order = [p[0] for p in r.get('probes', [])]
            vs = judge(r['hist'], order, base, r)
            if 'reg_after_hist' in r:
                regstates.add(tuple(r['reg_after_hist']))
                regstates.add(tuple(r['reg_after_probes']))
            st = [h64('reg', tuple(r.get('reg_after_hist', ()))), h64('reg', tuple(r.get('reg_after_probes', ())))]
            case = {'hist': r['hist'], 'order': order, 'hist_tags': htags(r['hist'])}
            core.fold(agg, (len(r['hist']) + 1, cid), case,
                      result('viol' if vs else 'ok-history', vs, st, len(r['hist']) + len(order),
                             h64('h', r['hist'], order[:1]) if r['hist'] else None,
                             h64(repr(r.get('probes')))))
            cid += 1
        agg['ngroups'] = len(hists)
        extra = {'pool': [e['tag'] for e in POOL], 'histories': len(hists), 'depth': depth,
                 'distinct_registry_states': len(regstates),
                 'baseline_readers': {POOL[i]['tag']: base[i]['reader'] for i in range(n)}}
    finally:
        shutil.rmtree(tmp, True)
    return report.finish(prop, agg, tier, seed, t0, extra_cov=extra)
