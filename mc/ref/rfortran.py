"""Fortran unformatted record walker and independent codecs for the CAMx binary
formats (written from the record layouts in DESIGN Appendix A, using only
struct).  No PseudoNetCDF import, no numpy structured dtypes."""
import struct

import numpy as np


class LayoutError(Exception):
    pass


_BO = ['>']     # byte order of numeric words (characters are never swapped)


class byteorder(object):
    """context manager: encode with little-endian numeric words"""

    def __init__(self, bo):
        self.bo = bo

    def __enter__(self):
        self.old = _BO[0]
        _BO[0] = self.bo

    def __exit__(self, *a):
        _BO[0] = self.old


class _S(object):
    @staticmethod
    def pack(fmt, *a):
        return struct.pack(_BO[0] + fmt.lstrip('><'), *a)


def rec(payload):
    n = _S.pack('i', len(payload))
    return n + payload + n


def records(b, strict=True):
    """yield payloads; every record must have equal leading/trailing markers and
    the records must tile the byte string exactly"""
    out = []
    pos = 0
    while pos < len(b):
        if pos + 4 > len(b):
            raise LayoutError('dangling %d bytes at %d' % (len(b) - pos, pos))
        n = struct.unpack('>i', b[pos:pos + 4])[0]
        if n < 0 or pos + 8 + n > len(b):
            raise LayoutError('record at %d claims %d bytes, file has %d' % (pos, n, len(b)))
        m = struct.unpack('>i', b[pos + 4 + n:pos + 8 + n])[0]
        if m != n:
            raise LayoutError('record at %d: leading marker %d != trailing marker %d' % (pos, n, m))
        out.append(b[pos + 4:pos + 4 + n])
        pos += 8 + n
    return out


def chars4(s, n):
    """n characters stored one per 4-byte word ('A   ')"""
    s = s.ljust(n)[:n]
    return b''.join(c.encode('ascii') + b'   ' for c in s)


def unchars4(b):
    return ''.join(chr(b[i]) for i in range(0, len(b), 4))


def f4(a):
    return np.asarray(a, dtype=_BO[0] + 'f4').tobytes()


def yyjjj(yyyyjjj):
    return yyyyjjj % 100000


# --------------------------------------------------------------------------
# time helpers (independent YYJJJ/hour arithmetic)

def is_leap(y):
    return (y % 4 == 0 and y % 100 != 0) or y % 400 == 0


def add_hours(yyyyjjj, hour, dh):
    """(YYYYJJJ, hour 0..23) + dh whole hours -> (YYYYJJJ, hour)"""
    y, j = divmod(yyyyjjj, 1000)
    hour += dh
    while hour >= 24:
        hour -= 24
        j += 1
        if j > (366 if is_leap(y) else 365):
            j = 1
            y += 1
    return y * 1000 + j, hour


def steps_for(start, hour, n, end_convention='next'):
    """n hourly steps: list of (ibdate, btime, iedate, etime) with 5-digit dates"""
    out = []
    d, h = start, hour
    for i in range(n):
        ed, eh = add_hours(d, h, 1)
        if end_convention == 'h24' and eh == 0 and ed != d:
            # CAMx also stamps the end of the last hour of a day as hour 24 of that day
            out.append((yyjjj(d), float(h), yyjjj(d), 24.0))
        else:
            out.append((yyjjj(d), float(h), yyjjj(ed), float(eh)))
        d, h = ed, eh
    return out


# --------------------------------------------------------------------------
# uamiv (AVERAGE / AIRQUALITY / EMISSIONS / INSTANT)

GRID_DEFAULT = dict(plon=-97., plat=40., iutm=0, xorg=-1000., yorg=-500., delx=12000., dely=12000.,
                    iproj=2, istag=0, tlat1=33., tlat2=45.)


def _hdr4(r, nspec_field=None):
    s = r['steps']
    p = chars4(r.get('name', 'AVERAGE'), 10) + chars4(r.get('note', 'reference encoded'), 60)
    p += _S.pack('>ii', r.get('itzon', 0), nspec_field if nspec_field is not None else len(r['species']))
    p += _S.pack('>ifif', s[0][0], s[0][1], s[-1][2], s[-1][3])
    g = dict(GRID_DEFAULT)
    g.update(r.get('grid', {}))
    q = _S.pack('>ffiffffiiiiifff', g['plon'], g['plat'], g['iutm'], g['xorg'], g['yorg'], g['delx'],
                    g['dely'], r['nx'], r['ny'], r.get('hdr_nz', r['nz']), g['iproj'], g['istag'], g['tlat1'], g['tlat2'], 0.)
    c = _S.pack('>iiii', 1, 1, r['nx'], r['ny'])
    sp = b''.join(chars4(n, 10) for n in r['species'])
    return rec(p) + rec(q) + rec(c) + rec(sp)


def enc_uamiv(r):
    """r: name, note, itzon, species [..], nx, ny, nz, steps [(ibdate,btime,iedate,etime)],
    data[t][s][z] -> 2-D (ny,nx)"""
    out = _hdr4(r)
    for ti, st in enumerate(r['steps']):
        out += rec(_S.pack('>ifif', *st))
        for si, sn in enumerate(r['species']):
            for zi in range(r['nz']):
                out += rec(_S.pack('>i', 1) + chars4(sn, 10) + f4(r['data'][ti][si][zi]))
    return out


def _dec_hdr4(recs):
    p, q, c, sp = recs[:4]
    if len(p) != 304 or len(q) != 60 or len(c) != 16:
        raise LayoutError('header record sizes %d %d %d' % (len(p), len(q), len(c)))
    r = {'name': unchars4(p[:40]).strip(), 'note': unchars4(p[40:280]).rstrip()}
    r['itzon'], nspec = struct.unpack('>ii', p[280:288])
    r['hdr_times'] = struct.unpack('>ifif', p[288:304])
    v = struct.unpack('>ffiffffiiiiifff', q)
    r['grid'] = dict(zip(('plon', 'plat', 'iutm', 'xorg', 'yorg', 'delx', 'dely'), v[:7]))
    r['nx'], r['ny'], r['nz'] = v[7:10]
    r['grid'].update(iproj=v[10], istag=v[11], tlat1=v[12], tlat2=v[13])
    one1, one2, cnx, cny = struct.unpack('>iiii', c)
    if (one1, one2, cnx, cny) != (1, 1, r['nx'], r['ny']):
        raise LayoutError('cell header %r disagrees with grid %d x %d' % ((one1, one2, cnx, cny), r['nx'], r['ny']))
    if len(sp) != 40 * nspec:
        raise LayoutError('species record has %d bytes for %d species' % (len(sp), nspec))
    r['species'] = [unchars4(sp[40 * i:40 * i + 40]).strip() for i in range(nspec)]
    return r


def dec_uamiv(b):
    recs = records(b)
    r = _dec_hdr4(recs)
    nz = max(r['nz'], 1)
    nspec = len(r['species'])
    per = 1 + nspec * nz
    body = recs[4:]
    if len(body) % per:
        raise LayoutError('%d data records is not a multiple of %d per step' % (len(body), per))
    r['steps'], r['data'] = [], []
    want = 44 + 4 * r['nx'] * r['ny']
    for ti in range(len(body) // per):
        blk = body[ti * per:(ti + 1) * per]
        if len(blk[0]) != 16:
            raise LayoutError('time record of %d bytes' % len(blk[0]))
        r['steps'].append(struct.unpack('>ifif', blk[0]))
        step = []
        k = 1
        for si in range(nspec):
            lays = []
            for zi in range(nz):
                d = blk[k]
                k += 1
                if len(d) != want:
                    raise LayoutError('data record of %d bytes, expected %d' % (len(d), want))
                one = struct.unpack('>i', d[:4])[0]
                nm = unchars4(d[4:44]).strip()
                if one != 1 or nm != r['species'][si]:
                    raise LayoutError('data record labelled %r/%d where %r expected' % (nm, one, r['species'][si]))
                lays.append(np.frombuffer(d[44:], dtype='>f4').reshape(r['ny'], r['nx']).astype('f4'))
            step.append(lays)
        r['data'].append(step)
    return r


# --------------------------------------------------------------------------
# lateral boundary

EDGES = (('WEST', 1, 'ny'), ('EAST', 2, 'ny'), ('SOUTH', 3, 'nx'), ('NORTH', 4, 'nx'))


def _edge_def(ei, ncell, nx, ny):
    if ei in (1, 3):
        icell = 2
    elif ei == 2:
        icell = nx - 1
    else:
        icell = ny - 1
    if ncell == 1:
        body = [0, 0, 0, 0]
    else:
        body = [0, 0, 0, 0] + [icell, 0, 0, 0] * (ncell - 2) + [0, 0, 0, 0]
    return rec(_S.pack('>iii', 1, ei, ncell) + _S.pack('>%di' % len(body), *body))


def enc_lateral_boundary(r):
    """data[t][s][edge] -> 2-D (ncell, nz)"""
    r = dict(r, name='BOUNDARY')
    out = _hdr4(r)
    for en, ei, dimk in EDGES:
        out += r.get('edgedefs', {}).get(en) or _edge_def(ei, r[dimk], r['nx'], r['ny'])
    for ti, st in enumerate(r['steps']):
        out += rec(_S.pack('>ifif', *st))
        for si, sn in enumerate(r['species']):
            for k, (en, ei, dimk) in enumerate(EDGES):
                out += rec(_S.pack('>i', 1) + chars4(sn, 10) + _S.pack('>i', ei) +
                           f4(r['data'][ti][si][k]))
    return out


def dec_lateral_boundary(b):
    recs = records(b)
    r = _dec_hdr4(recs)
    nz = max(r['nz'], 1)
    r['edgedefs'] = {}
    for k, (en, ei, dimk) in enumerate(EDGES):
        e = recs[4 + k]
        one, iedge, ncell = struct.unpack('>iii', e[:12])
        if (one, iedge, ncell) != (1, ei, r[dimk]) or len(e) != 12 + 16 * ncell:
            raise LayoutError('edge definition %s: (%d,%d,%d) with %d bytes, grid says %d cells'
                              % (en, one, iedge, ncell, len(e), r[dimk]))
        r['edgedefs'][en] = rec(e)
    body = recs[8:]
    nspec = len(r['species'])
    per = 1 + 4 * nspec
    if len(body) % per:
        raise LayoutError('%d data records is not a multiple of %d per step' % (len(body), per))
    r['steps'], r['data'] = [], []
    for ti in range(len(body) // per):
        blk = body[ti * per:(ti + 1) * per]
        r['steps'].append(struct.unpack('>ifif', blk[0]))
        step = []
        k = 1
        for si in range(nspec):
            edges = []
            for (en, ei, dimk) in EDGES:
                d = blk[k]
                k += 1
                n = r[dimk]
                if len(d) != 48 + 4 * n * nz:
                    raise LayoutError('edge record of %d bytes, expected %d' % (len(d), 48 + 4 * n * nz))
                one = struct.unpack('>i', d[:4])[0]
                nm = unchars4(d[4:44]).strip()
                ie = struct.unpack('>i', d[44:48])[0]
                if one != 1 or nm != r['species'][si] or ie != ei:
                    raise LayoutError('edge record labelled %r edge %d where %r edge %d expected'
                                      % (nm, ie, r['species'][si], ei))
                edges.append(np.frombuffer(d[48:], dtype='>f4').reshape(n, nz).astype('f4'))
            step.append(edges)
        r['data'].append(step)
    return r


# --------------------------------------------------------------------------
# meteorological one-record-per-layer formats: hour f4, idate i4 (YYJJJ), field

def _met_rec(hour, idate, field):
    return rec(_S.pack('>fi', hour, idate) + f4(field))


def _met_unrec(d, ny, nx):
    hour, idate = struct.unpack('>fi', d[:8])
    if len(d) != 8 + 4 * nx * ny:
        raise LayoutError('field record of %d bytes, expected %d' % (len(d), 8 + 4 * nx * ny))
    return hour, idate, np.frombuffer(d[8:], dtype='>f4').reshape(ny, nx).astype('f4')


def enc_one3d(r):
    """humidity / vertical_diffusivity / generic: times [(hour HHMM float, idate)], data[t][z] (ny,nx)"""
    out = b''
    for ti, (hour, idate) in enumerate(r['times']):
        for zi in range(r['nz']):
            out += _met_rec(hour, idate, r['data'][ti][zi])
    return out


def dec_one3d(b, ny, nx, nz):
    recs = records(b)
    if len(recs) % nz:
        raise LayoutError('%d records for %d layers' % (len(recs), nz))
    r = {'nx': nx, 'ny': ny, 'nz': nz, 'times': [], 'data': []}
    for ti in range(len(recs) // nz):
        lays = []
        for zi in range(nz):
            hour, idate, fld = _met_unrec(recs[ti * nz + zi], ny, nx)
            if zi == 0:
                r['times'].append((hour, idate))
            elif (hour, idate) != r['times'][-1]:
                raise LayoutError('layer %d of step %d stamped %r, step is %r' % (zi, ti, (hour, idate), r['times'][-1]))
            lays.append(fld)
        r['data'].append(lays)
    return r


def enc_temperature(r):
    """times, sfc[t] (ny,nx), data[t][z] (ny,nx)"""
    out = b''
    for ti, (hour, idate) in enumerate(r['times']):
        out += _met_rec(hour, idate, r['sfc'][ti])
        for zi in range(r['nz']):
            out += _met_rec(hour, idate, r['data'][ti][zi])
    return out


def dec_temperature(b, ny, nx, nz):
    recs = records(b)
    per = nz + 1
    if len(recs) % per:
        raise LayoutError('%d records for %d per step' % (len(recs), per))
    r = {'nx': nx, 'ny': ny, 'nz': nz, 'times': [], 'sfc': [], 'data': []}
    for ti in range(len(recs) // per):
        hour, idate, fld = _met_unrec(recs[ti * per], ny, nx)
        r['times'].append((hour, idate))
        r['sfc'].append(fld)
        r['data'].append([_met_unrec(recs[ti * per + 1 + zi], ny, nx)[2] for zi in range(nz)])
    return r


def enc_height_pressure(r):
    """times, hght[t][z], pres[t][z]"""
    out = b''
    for ti, (hour, idate) in enumerate(r['times']):
        for zi in range(r['nz']):
            out += _met_rec(hour, idate, r['hght'][ti][zi])
            out += _met_rec(hour, idate, r['pres'][ti][zi])
    return out


def dec_height_pressure(b, ny, nx, nz):
    recs = records(b)
    per = 2 * nz
    if len(recs) % per:
        raise LayoutError('%d records for %d per step' % (len(recs), per))
    r = {'nx': nx, 'ny': ny, 'nz': nz, 'times': [], 'hght': [], 'pres': []}
    for ti in range(len(recs) // per):
        hh, pp = [], []
        for zi in range(nz):
            hour, idate, f1 = _met_unrec(recs[ti * per + 2 * zi], ny, nx)
            f2 = _met_unrec(recs[ti * per + 2 * zi + 1], ny, nx)[2]
            if zi == 0:
                r['times'].append((hour, idate))
            hh.append(f1)
            pp.append(f2)
        r['hght'].append(hh)
        r['pres'].append(pp)
    return r


def enc_wind(r):
    """times, lstagger, u[t][z], v[t][z]; one 4-byte dummy record after every step"""
    out = b''
    for ti, (hour, idate) in enumerate(r['times']):
        if r.get('lstagger', 0) is None:
            out += rec(_S.pack('>fi', hour, idate))       # older 8-byte time header (no staggering flag)
        else:
            out += rec(_S.pack('>fii', hour, idate, r.get('lstagger', 0)))
        for zi in range(r['nz']):
            out += rec(f4(r['u'][ti][zi]))
            out += rec(f4(r['v'][ti][zi]))
        out += rec(_S.pack('>i', 0))
    return out


def dec_wind(b, ny, nx, nz):
    recs = records(b)
    per = 2 * nz + 2
    if len(recs) % per:
        raise LayoutError('%d records for %d per step' % (len(recs), per))
    r = {'nx': nx, 'ny': ny, 'nz': nz, 'times': [], 'u': [], 'v': []}
    for ti in range(len(recs) // per):
        blk = recs[ti * per:(ti + 1) * per]
        if len(blk[0]) not in (8, 12) or len(blk[-1]) != 4:
            raise LayoutError('wind step %d: header %d bytes, dummy %d bytes' % (ti, len(blk[0]), len(blk[-1])))
        if len(blk[0]) == 8:
            hour, idate = struct.unpack('>fi', blk[0])
            lst = None
        else:
            hour, idate, lst = struct.unpack('>fii', blk[0])
        r['times'].append((hour, idate))
        r['lstagger'] = lst
        uu, vv = [], []
        for zi in range(nz):
            for tgt, d in ((uu, blk[1 + 2 * zi]), (vv, blk[2 + 2 * zi])):
                if len(d) != 4 * nx * ny:
                    raise LayoutError('wind field record of %d bytes' % len(d))
                tgt.append(np.frombuffer(d, dtype='>f4').reshape(ny, nx).astype('f4'))
        r['u'].append(uu)
        r['v'].append(vv)
    return r


CR_VARS5 = ('cloud', 'rain', 'snow', 'graupel', 'cod')
CR_VARS3 = ('cloud', 'precip', 'cod')


def enc_cloud_rain(r):
    """header record: text (20 characters), nx, ny, nz; then per step a (hour, idate) record followed, layer by
    layer, by one (ny,nx) record per variable (5 variables since CAMx 4.3, 3 before)"""
    out = rec(r['cldhdr'].encode('ascii') + _S.pack('>iii', r['nx'], r['ny'], r['nz']))
    for ti, (hour, idate) in enumerate(r['times']):
        out += rec(_S.pack('>fi', hour, idate))
        for zi in range(r['nz']):
            for k in r['crvars']:
                out += rec(f4(r[k][ti][zi]))
    return out


def dec_cloud_rain(b, nvars=None):
    recs = records(b)
    if not recs or len(recs[0]) < 12:
        raise LayoutError('no cloud/rain header record')
    nx, ny, nz = struct.unpack('>iii', recs[0][-12:])
    hdr = recs[0][:-12].decode('ascii')
    body = recs[1:]
    if nvars is None:
        for nvars in (5, 3):
            if len(body) % (1 + nvars * nz) == 0:
                break
        else:
            raise LayoutError('%d records do not tile into steps of 1 + {5,3} x %d' % (len(body), nz))
    per = 1 + nvars * nz
    if len(body) % per:
        raise LayoutError('%d records for %d per step' % (len(body), per))
    names = CR_VARS5 if nvars == 5 else CR_VARS3
    r = {'nx': nx, 'ny': ny, 'nz': nz, 'cldhdr': hdr, 'times': [], 'crvars': list(names)}
    for k in names:
        r[k] = []
    for ti in range(len(body) // per):
        d = body[ti * per]
        if len(d) != 8:
            raise LayoutError('time record of %d bytes' % len(d))
        r['times'].append(struct.unpack('>fi', d))
        for k in names:
            r[k].append([])
        for zi in range(nz):
            for vi, k in enumerate(names):
                d = body[ti * per + 1 + zi * nvars + vi]
                if len(d) != 4 * nx * ny:
                    raise LayoutError('cloud/rain field record of %d bytes, expected %d' % (len(d), 4 * nx * ny))
                r[k][ti].append(np.frombuffer(d, dtype='>f4').reshape(ny, nx).astype('f4'))
    return r


def enc_landuse(r):
    """old style: one record fland(nland=11, ny, nx), optionally one record topo(ny, nx);
    new style: every data record is preceded by an 8-character key record
    ('LUCAT11 ' / 'LUCAT26 ', then optionally 'LAI     ' and/or 'TOPO    ')"""
    out = b''
    if r['style'] == 'old':
        out += rec(f4(r['fland']))
        for key, a in r['others']:
            out += rec(f4(a))
        return out
    out += rec(('LUCAT%02d' % r['nland']).ljust(8).encode('ascii')) + rec(f4(r['fland']))
    for key, a in r['others']:
        out += rec(key.ljust(8).encode('ascii')) + rec(f4(a))
    return out


def dec_landuse(b, ny, nx):
    recs = records(b)
    if not recs:
        raise LayoutError('empty land-use file')
    r = {'nx': nx, 'ny': ny, 'others': []}
    if len(recs[0]) == 8:
        r['style'] = 'new'
        if len(recs) % 2:
            raise LayoutError('new-style land-use file with %d records' % len(recs))
        key = recs[0].decode('ascii')
        if key not in ('LUCAT11 ', 'LUCAT26 '):
            raise LayoutError('first key is %r' % key)
        nland = int(key[5:7])
        if len(recs[1]) != 4 * nland * ny * nx:
            raise LayoutError('land-use record of %d bytes, expected %d' % (len(recs[1]), 4 * nland * ny * nx))
        r['nland'] = nland
        r['fland'] = np.frombuffer(recs[1], dtype='>f4').reshape(nland, ny, nx).astype('f4')
        for i in range(2, len(recs), 2):
            if len(recs[i]) != 8 or len(recs[i + 1]) != 4 * ny * nx:
                raise LayoutError('optional land-use records of %d, %d bytes' % (len(recs[i]), len(recs[i + 1])))
            r['others'].append((recs[i].decode('ascii').strip(),
                                np.frombuffer(recs[i + 1], dtype='>f4').reshape(ny, nx).astype('f4')))
        return r
    r['style'] = 'old'
    r['nland'] = 11
    if len(recs[0]) != 4 * 11 * ny * nx:
        raise LayoutError('land-use record of %d bytes, expected %d' % (len(recs[0]), 4 * 11 * ny * nx))
    r['fland'] = np.frombuffer(recs[0], dtype='>f4').reshape(11, ny, nx).astype('f4')
    for d in recs[1:]:
        if len(d) != 4 * ny * nx:
            raise LayoutError('optional land-use record of %d bytes' % len(d))
        r['others'].append(('TOPO', np.frombuffer(d, dtype='>f4').reshape(ny, nx).astype('f4')))
    return r


CODECS = {
    'uamiv': (enc_uamiv, dec_uamiv),
    'lateral_boundary': (enc_lateral_boundary, dec_lateral_boundary),
    'one3d': (enc_one3d, dec_one3d),
    'humidity': (enc_one3d, dec_one3d),
    'vertical_diffusivity': (enc_one3d, dec_one3d),
    'temperature': (enc_temperature, dec_temperature),
    'height_pressure': (enc_height_pressure, dec_height_pressure),
    'wind': (enc_wind, dec_wind),
    'cloud_rain': (enc_cloud_rain, dec_cloud_rain),
    'landuse': (enc_landuse, dec_landuse),
}


# --------------------------------------------------------------------------
# GEOS-Chem binary punch (bpch)

def enc_bpch(r):
    """r: ftype, toptitle, modelname, modelres (2 floats), halfpolar, center180,
    blocks [[dict(category, tracer, unit, tau0, tau1, reserved, start (i0,j0,l0), data (nl,nj,ni))]]"""
    out = rec(r.get('ftype', 'CTM bin 02').ljust(40).encode('ascii')[:40])
    out += rec(r.get('toptitle', 'reference encoded').ljust(80).encode('ascii')[:80])
    for blocks in r['blocks']:
        for b in blocks:
            nl, nj, ni = b['data'].shape
            out += rec(r['modelname'].ljust(20).encode('ascii')[:20] + _S.pack('>ffii', r['modelres'][0],
                                                                               r['modelres'][1], r['halfpolar'],
                                                                               r['center180']))
            out += rec(b['category'].ljust(40).encode('ascii')[:40] + _S.pack('>i', b['tracer']) +
                       b['unit'].ljust(40).encode('ascii')[:40] + _S.pack('>dd', b['tau0'], b['tau1']) +
                       b.get('reserved', '').ljust(40).encode('ascii')[:40] +
                       _S.pack('>6i', ni, nj, nl, b['start'][0], b['start'][1], b['start'][2]) +
                       _S.pack('>i', 4 * ni * nj * nl + 8))
            out += rec(f4(b['data']))
    return out


def dec_bpch(raw):
    recs = records(raw)
    if len(recs[0]) != 40 or len(recs[1]) != 80:
        raise LayoutError('bpch header records of %d and %d bytes' % (len(recs[0]), len(recs[1])))
    r = {'ftype': recs[0].decode('ascii').rstrip(), 'toptitle': recs[1].decode('ascii').rstrip(), 'flat': []}
    body = recs[2:]
    if len(body) % 3:
        raise LayoutError('%d records after the header is not a multiple of 3' % len(body))
    for k in range(0, len(body), 3):
        a, b, c = body[k:k + 3]
        if len(a) != 36 or len(b) != 168:
            raise LayoutError('data block header records of %d and %d bytes' % (len(a), len(b)))
        blk = {'modelname': a[:20].decode('ascii').rstrip()}
        blk['modelres'] = struct.unpack('>ff', a[20:28])
        blk['halfpolar'], blk['center180'] = struct.unpack('>ii', a[28:36])
        blk['category'] = b[:40].decode('ascii').rstrip()
        blk['tracer'] = struct.unpack('>i', b[40:44])[0]
        blk['unit'] = b[44:84].decode('ascii').rstrip()
        blk['tau0'], blk['tau1'] = struct.unpack('>dd', b[84:100])
        blk['reserved'] = b[100:140].decode('ascii').rstrip()
        ni, nj, nl, i0, j0, l0 = struct.unpack('>6i', b[140:164])
        blk['start'] = (i0, j0, l0)
        skip = struct.unpack('>i', b[164:168])[0]
        if len(c) != 4 * ni * nj * nl or skip != len(c) + 8:
            raise LayoutError('data record of %d bytes for dims %r, skip %d' % (len(c), (ni, nj, nl), skip))
        blk['data'] = np.frombuffer(c, dtype='>f4').reshape(nl, nj, ni).astype('f4')
        r['flat'].append(blk)
    return r


def tracerinfo_line(name, fullname, molwt, carbon, tracer, scale, unit):
    return '%-8s %-30s%10.3E%3d%9d%10.3E %s' % (name, fullname, molwt, carbon, tracer, scale, unit)


def diaginfo_line(offset, category, comment=''):
    return '%8d %-40s %s' % (offset, category, comment)
