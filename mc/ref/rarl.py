"""Serial re-implementation of the ARL packed-bit format (pakout/pakinp of the
HYSPLIT library, written from the format description).  float32 arithmetic is
emulated step by step with numpy.float32 scalars.  No PseudoNetCDF import."""
import math
import struct

import numpy as np

F = np.float32


def serial_pack(field):
    """field: 2-D array (ny, nx).  Returns (bytes ny*nx, prec, nexp, var1, ksum)."""
    rvar = np.asarray(field, dtype='f')
    ny, nx = rvar.shape
    var1 = F(rvar[0, 0])
    rold = var1
    rmax = F(0.)
    for j in range(ny):
        for i in range(nx):
            rmax = max(F(abs(F(rvar[j, i] - rold))), rmax)
            rold = rvar[j, i]
        rold = rvar[j, 0]
    sexp = 0.0
    if rmax != 0.0:
        # exact base-2 logarithm (the reference does not inherit float32 log rounding)
        sexp = math.log2(float(rmax))
    nexp = int(sexp)
    if sexp >= 0.0 or (sexp % 1.0) == 0.0:
        nexp += 1
    prec = F((2.0 ** nexp) / 254.0)
    scexp = F(2.0 ** (7 - nexp))
    out = bytearray()
    ksum = 0
    rcol = var1
    for j in range(ny):
        rold = rcol
        for i in range(nx):
            icval = int(F(F(rvar[j, i] - rold) * scexp) + F(127.5))
            if not 0 <= icval <= 255:
                raise OverflowError('reference packer: byte %d out of range' % icval)
            out.append(icval)
            rold = F(F(icval - 127) / scexp + rold)
            if i == 0:
                rcol = rold
            ksum += icval
            if ksum >= 256:
                ksum -= 255
    return bytes(out), float(prec), nexp, float(var1), ksum


def serial_unpack(data, ny, nx, var1, nexp):
    scexp = F(2.0 ** (7 - nexp))
    out = np.zeros((ny, nx), dtype='f')
    rold = F(var1)
    k = 0
    for j in range(ny):
        for i in range(nx):
            out[j, i] = F(F(data[k] - 127) / scexp + rold)
            rold = out[j, i]
            k += 1
        rold = out[j, 0]
    return out


def checksum(data):
    ksum = 0
    for b in data:
        ksum += b
        if ksum >= 256:
            ksum -= 255
    return ksum


# --------------------------------------------------------------------------
# file layout

def _lvltxt(v):
    if v == 0:
        return '0.0000'
    dp = int(math.floor(math.log10(abs(v)) + 1))
    t = ('%6.' + str(min(5, 5 - dp)) + 'f') % v
    t = t[-6:]
    assert len(t) == 6, t
    return t


def encode_file(rec):
    """rec: dict(nx, ny, times [(yy,mm,dd,hh)], sfc {name: [field per time]},
    levels [height...], upper {name: [[field per level] per time]}, sfclevel height)
    returns bytes.  Lat/lon grid (GRIDX = 0, so no map projection is involved)."""
    nx, ny = rec['nx'], rec['ny']
    ncell = nx * ny
    recl = 50 + ncell
    out = bytearray()
    levels = [rec.get('sfclevel', 1.0)] + list(rec['levels'])
    nz = len(levels)
    sfcnames = list(rec['sfc'])
    upnames = list(rec['upper'])
    # optionally each upper level carries its own subset of the upper variables
    lev_names = rec.get('level_names') or [upnames] * (nz - 1)

    def names_at(li):
        return sfcnames if li == 0 else [n for n in upnames if n in lev_names[li - 1]]
    for ti, (yy, mm, dd, hh) in enumerate(rec['times']):
        tstr = '%02d%02d%02d%02d%2d' % (yy, mm, dd, hh, 0)
        packed = {}
        for name in sfcnames:
            packed[(0, name)] = serial_pack(rec['sfc'][name][ti])
        for li in range(1, nz):
            for name in names_at(li):
                packed[(li, name)] = serial_pack(rec['upper'][name][ti][li - 1])
        defs = ''
        for li, lv in enumerate(levels):
            names = names_at(li)
            defs += _lvltxt(lv) + '%2d' % len(names)
            for name in names:
                defs += '%-4s%3d ' % (name, packed[(li, name)][4])
        lenh = 108 + len(defs)
        # grid field: two characters; grids with 1000 or more points on an axis store the thousands as
        # letters (chr(64 + thousands) for x then y) and the remainder in the 3-digit NX / NY fields
        gridtxt = '99' if nx < 1000 and ny < 1000 else chr(64 + nx // 1000) + chr(64 + ny // 1000)
        label = '%s%2d%2s%4s%4d%14.7E%14.7E' % (tstr, 0, gridtxt, 'INDX', 0, 0.0, 0.0)
        assert len(label) == 50, len(label)
        hdr = '%4s%3d%2d' % ('VRFY', 0, 0)
        for v in (90.0, 0.0, rec.get('dlat', 1.0), rec.get('dlon', 1.0), 0.0, 0.0, 0.0, 1.0, 1.0,
                  rec.get('lat0', -10.0), rec.get('lon0', 20.0), 0.0):
            hdr += '%7.2f' % v
        hdr += '%3d%3d%3d%2d%4d' % (nx % 1000 if gridtxt != '99' else nx, ny % 1000 if gridtxt != '99' else ny,
                                    nz, 2, lenh)
        assert len(hdr) == 108, len(hdr)
        index = (label + hdr + defs).ljust(recl)
        assert len(index) == recl, 'grid too small for the index record'
        out += index.encode('ascii')
        for li in range(nz):
            names = names_at(li)
            for name in names:
                data, prec, nexp, var1, ksum = packed[(li, name)]
                lab = '%s%2d%2s%-4s%4d%14.7E%14.7E' % (tstr, li, gridtxt, name, nexp, prec, var1)
                assert len(lab) == 50
                out += lab.encode('ascii') + data
    return bytes(out)


def decode_file(raw):
    try:
        return _decode_file(raw)
    except Exception as e:     # malformed numeric field etc.
        return {'problems': ['undecodable: %r' % e], 'fields': {}, 'levels': None, 'names': None, 'times': []}


def _decode_file(raw):
    """Independent reader: returns dict(nx, ny, nz, times [label time strings], levels,
    names per level, fields {(ti, li, name): array}, problems [str])."""
    problems = []
    if b'\x00' in raw[:50 + 108]:
        problems.append('NUL byte in the ASCII index header: %r' % raw[:158])
    nx, ny, nz = int(raw[50 + 93:50 + 96]), int(raw[50 + 96:50 + 99]), int(raw[50 + 99:50 + 102])
    g = raw[12:14]
    if 64 <= g[0] <= 90 and 64 <= g[1] <= 90:
        nx += (g[0] - 64) * 1000
        ny += (g[1] - 64) * 1000
    recl = 50 + nx * ny
    if len(raw) % recl:
        problems.append('file length %d is not a multiple of the record length %d' % (len(raw), recl))
    out = {'nx': nx, 'ny': ny, 'nz': nz, 'times': [], 'levels': None, 'names': None, 'fields': {},
           'problems': problems}
    pos = 0
    ti = 0
    while pos + recl <= len(raw):
        rec = raw[pos:pos + recl]
        label = rec[:50].decode('ascii', 'replace')
        if label[14:18] != 'INDX':
            problems.append('record at %d is not an index record: %r' % (pos, label))
            break
        lenh = int(rec[50 + 104:50 + 108])
        defs = rec[50 + 108:50 + lenh].decode('ascii', 'replace')
        levels, names, sums = [], [], []
        p = 0
        for li in range(nz):
            levels.append(float(defs[p:p + 6]))
            nv = int(defs[p + 6:p + 8])
            p += 8
            nm, sm = [], []
            for k in range(nv):
                nm.append(defs[p:p + 4].strip())
                sm.append(int(defs[p + 4:p + 7]))
                p += 8
            names.append(nm)
            sums.append(sm)
        if defs[p:].strip():
            problems.append('trailing text in level definitions: %r' % defs[p:p + 20])
        if out['levels'] is None:
            out['levels'], out['names'] = levels, names
        elif levels != out['levels'] or names != out['names']:
            problems.append('index record %d differs in levels/variables' % ti)
        out['times'].append(label[:10])
        pos += recl
        for li in range(nz):
            for k, nm in enumerate(names[li]):
                rec = raw[pos:pos + recl]
                if len(rec) < recl:
                    problems.append('file ends inside time %d level %d %s' % (ti, li, nm))
                    return out
                lab = rec[:50].decode('ascii', 'replace')
                if lab[:10] != label[:10] or lab[14:18].strip() != nm or int(lab[10:12]) != li:
                    problems.append('record label %r where time %r level %d %s expected' % (lab, label[:10], li, nm))
                nexp = int(lab[18:22])
                prec = float(lab[22:36])
                var1 = float(lab[36:50])
                data = rec[50:]
                if checksum(data) != sums[li][k] and sums[li][k] != -1:
                    problems.append('checksum of time %d level %d %s is %d, index says %d'
                                    % (ti, li, nm, checksum(data), sums[li][k]))
                if abs(prec - (2.0 ** nexp) / 254.0) > 1e-6 * abs(prec):
                    problems.append('precision %r is not 2**%d/254' % (prec, nexp))
                out['fields'][(ti, li, nm)] = (serial_unpack(list(data), ny, nx, var1, nexp), nexp)
                pos += recl
        ti += 1
    return out
