"""Engine C: exhaustive open/close/drop/gc event-schedule explorer (C05c).

k disk-backed files; events open(i) close(i) drop(i) gc.  Reference model:
slot -> 'none' | 'open' | 'closed'.  After EVERY event each object the model
says is open must return its own variable data.  All event sequences of the
bound length that respect the enabledness rules are executed on the real
netCDF C library (handle ids are recycled by the library: that is the point).
"""
import os
import gc
import shutil
import tempfile

import numpy as np

from . import core
from .core import viol, result, h64

MAXCLOSE = 2      # close() of one object is allowed repeatedly, at most twice


def enabled(model, last):
    """model: tuple per slot (state, nclose). returns list of events"""
    ev = []
    for i, (st, nc) in enumerate(model):
        if st == 'none':
            ev.append(('open', i))
        else:
            if nc < MAXCLOSE:
                ev.append(('close', i))
            ev.append(('drop', i))
    if last != ('gc',):
        ev.append(('gc',))
    return ev


def step_model(model, e):
    m = list(model)
    if e[0] == 'open':
        m[e[1]] = ('open', 0)
    elif e[0] == 'close':
        st, nc = m[e[1]]
        m[e[1]] = ('closed', nc + 1)
    elif e[0] == 'drop':
        m[e[1]] = ('none', 0)
    return tuple(m)


def completions(model, last, n):
    if n == 0:
        yield []
        return
    for e in enabled(model, last):
        for rest in completions(step_model(model, e), e, n - 1):
            yield [list(e)] + rest


class Prop(core.Prop):
    ID = 'C05'
    ENGINE = 'C'
    HORIZON = 30.0

    def bounds(self, tier):
        return {'readers': ['netcdf', 'ioapi', 'auto'],
                'k2_length': 6 if tier == 'quick' else 8,
                'k3_length': 5 if tier == 'quick' else 6,
                'max_close_per_object': MAXCLOSE}

    def groups(self, tier):
        b = self.bounds(tier)
        for reader in b['readers']:
            for k, L in ((2, b['k2_length']), (3, b['k3_length'])):
                init = tuple(('none', 0) for _ in range(k))
                # shard by the first two events
                for e1 in enabled(init, None):
                    m1 = step_model(init, e1)
                    for e2 in enabled(m1, e1):
                        yield {'reader': reader, 'k': k, 'L': L, 'prefix': [list(e1), list(e2)]}

    def expand(self, group):
        k = group['k']
        model = tuple(('none', 0) for _ in range(k))
        last = None
        for e in group['prefix']:
            model = step_model(model, tuple(e))
            last = tuple(e)
        for rest in completions(model, last, group['L'] - len(group['prefix'])):
            yield {'reader': group['reader'], 'k': k, 'schedule': group['prefix'] + rest}

    def worker_init(self):
        P = core.load_lib()
        base = '/dev/shm' if os.path.isdir('/dev/shm') else None
        self.tmp = tempfile.mkdtemp(prefix='verif_c05c_', dir=base)
        import atexit
        atexit.register(shutil.rmtree, self.tmp, True)
        from ..ref import rfile
        from .. import lib, ioapi_u
        self.paths = {}
        self.expect = {}
        for i in range(3):
            p = os.path.join(self.tmp, 'u%d.nc' % i)
            rf = rfile.ufile({'lens': {'t': 2, 'z': 1, 'x': 2 + i}, 'unl': True,
                              'kinds': ['A', 'B']})
            lib.to_real(rf).save(p, format='NETCDF4_CLASSIC', verbose=0).close()
            self.paths[('netcdf', i)] = p
            self.paths[('auto', i)] = p
            self.expect[('netcdf', i)] = ('A', rf.vars['A'].data.copy())
            self.expect[('auto', i)] = self.expect[('netcdf', i)]
            q = os.path.join(self.tmp, 'io%d.nc' % i)
            f = ioapi_u.build(ioapi_u.recipe(nt=2, nl=1, nr=2, nc=2 + i, nv=1, start=i))
            want = np.array(f.variables['O3'][...])
            f.save(q, format='NETCDF3_CLASSIC', verbose=0).close()
            self.paths[('ioapi', i)] = q
            self.expect[('ioapi', i)] = ('O3', want)
        gc.collect()
        self.baseline = None
        self.drift = 0

    def _open(self, reader, i):
        P = core.load_lib()
        p = self.paths[(reader, i)]
        if reader == 'auto':
            return P.pncopen(p)
        return P.pncopen(p, format=reader)

    def run_one(self, case):
        reader, k = case['reader'], case['k']
        # handle-table probe (every 25th schedule): after the previous schedule's
        # cleanup a fresh open must get the same id as before
        self.count = getattr(self, 'count', 0) + 1
        if self.count % 25 == 1:
            probe = self._open('netcdf', 0)
            pid = getattr(probe, '_grpid', None)
            probe.close()
            del probe
            gc.collect()
            if self.baseline is None:
                self.baseline = pid
            elif pid != self.baseline:
                self.drift += 1
                self.baseline = pid
        objs = [None] * k
        model = tuple(('none', 0) for _ in range(k))
        vs = []
        states = []
        for n, e in enumerate(case['schedule']):
            e = tuple(e)
            try:
                if e[0] == 'open':
                    objs[e[1]] = self._open(reader, e[1])
                elif e[0] == 'close':
                    objs[e[1]].close()
                elif e[0] == 'drop':
                    objs[e[1]] = None
                elif e[0] == 'gc':
                    gc.collect()
            except Exception as ex:
                vs.append(viol('event-raises', ('schedule', reader, e[0]),
                               'event %d %r raised %r' % (n, e, ex), reader=reader, event=e[0]))
                break
            model = step_model(model, e)
            ids = tuple(getattr(o, '_grpid', None) if o is not None else None for o in objs)
            states.append(h64(reader, model, tuple(i is not None and ids.count(i) > 1 for i in ids)))
            bad = None
            for i, (st, nc) in enumerate(model):
                if st != 'open':
                    continue
                name, want = self.expect[(reader, i)]
                try:
                    got = np.array(np.ma.getdata(objs[i].variables[name][...]))
                    if got.shape != want.shape or not np.array_equal(got, want):
                        bad = 'slot %d returned foreign data %s' % (i, got.ravel()[:4])
                except Exception as ex:
                    bad = 'slot %d (model: open) unreadable: %r' % (i, ex)
                if bad:
                    break
            if bad:
                kinds = [x[0] for x in case['schedule'][:n + 1]]
                trig = e[0]
                vs.append(viol('open-file-invalidated', ('schedule', reader, trig),
                               'after event %d %r of %r: %s' % (n, e, case['schedule'], bad),
                               reader=reader, trigger=trig,
                               closed_before=bool('close' in kinds[:-1] or trig == 'close')))
                break
        for i in range(k):
            try:
                if objs[i] is not None:
                    objs[i].close()
            except Exception:
                pass
            objs[i] = None
        gc.collect()
        nontriv = any(x[0] in ('close', 'drop', 'gc') for x in case['schedule'])
        return result('viol' if vs else 'ok-schedule', vs, states, len(case['schedule']),
                      h64(reader, k, case['schedule']) if nontriv else None,
                      h64('sched-ok') if not vs else None)


def explore(tier, seed):
    prop, agg = core.explore(__name__, tier, seed)
    extra = {'schedules_executed': agg['n'], 'bounds': prop.bounds(tier)}
    return agg, extra, []
