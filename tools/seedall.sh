#!/bin/bash
# usage: tools/seedall.sh [seed ids...]  - re-verifies every kept seeded change against the checks listed in its
# meta.json (detected_by): the demo must fail on the changed tree and every listed check must exit 1 with a VIOLATION line.
cd /verif
IDS=${@:-$(ls seeded)}
bad=0
for s in $IDS; do
  checks=$(python3 -c "import json;print(' '.join(json.load(open('/verif/seeded/$s/meta.json'))['detected_by']))")
  out=$(SKIP_BASELINE=${SKIP_BASELINE-1} tools/seedtest.sh /verif/seeded/$s ${s/-/_} $checks 2>&1)
  ok=1
  echo "$out" | grep -q "demo on changed tree: exit 1" || ok=0
  echo "$out" | grep -q "demo on clean tree: exit 0" || ok=0
  for c in $checks; do echo "$out" | grep -q "check $c on changed tree: exit 1  [1-9]" || ok=0; done
  if [ $ok = 1 ]; then echo "SEED $s OK ($checks)"; else echo "SEED $s FAILED"; echo "$out" | sed 's/^/    /'; bad=1; fi
done
exit $bad
