"""Reference semantics of the transformation operations on RFile.
Plain numpy / numpy.ma, one primitive per axis.  No PseudoNetCDF import."""
from collections import OrderedDict

import numpy as np

from .rfile import RFile, RVar


class OutOfDomain(Exception):
    """The operation instance is outside the documented domain (DESIGN 3.1):
    the library may raise; if it returns, the result must be well-formed."""


# --------------------------------------------------------------------------
# selectors: ('i', k) | ('s', start, stop, step) | ('l', [k, ...])

def sel_to_py(s):
    if s[0] == 'i':
        return int(s[1])
    if s[0] == 'I':
        return np.int64(s[1])
    if s[0] == 's':
        return slice(s[1], s[2], s[3])
    if s[0] == 'l':
        return [int(i) for i in s[1]]
    if s[0] == 'b':
        # boolean mask over the axis (e.g. the result of a comparison on the times)
        return np.array([bool(i) for i in s[1]])
    raise ValueError(s)


def sel_indices(s, n):
    """index list an in-domain selector picks on an axis of length n"""
    if s[0] in ('i', 'I'):
        k = int(s[1])
        if not (-n <= k < n):
            raise OutOfDomain('integer %d outside [-%d,%d)' % (k, n, n))
        return [k % n] if n else []
    if s[0] == 's':
        if s[3] == 0:
            raise OutOfDomain('zero slice step')
        return list(range(n))[slice(s[1], s[2], s[3])]
    if s[0] == 'l':
        out = []
        for k in s[1]:
            k = int(k)
            if not (-n <= k < n):
                raise OutOfDomain('list index %d outside [-%d,%d)' % (k, n, n))
            out.append(k % n)
        return out
    if s[0] == 'b':
        if len(s[1]) != n:
            raise OutOfDomain('mask of length %d on an axis of length %d' % (len(s[1]), n))
        return [k for k, b in enumerate(s[1]) if b]
    raise ValueError(s)


def rslice(rf, sel, newdims=('POINTS',)):
    for d in sel:
        if d not in rf.dims:
            raise OutOfDomain('unknown dimension ' + d)
    lists = [d for d, s in sel.items() if s[0] == 'l']
    zipped = len(lists) >= 2
    idx = OrderedDict((d, sel_indices(s, rf.dims[d][0])) for d, s in sel.items())
    if zipped:
        npts = len(idx[lists[0]])
        if any(len(idx[d]) != npts for d in lists):
            raise OutOfDomain('index lists of unequal length')
        if newdims[0] in rf.dims:
            raise OutOfDomain('new dimension name already exists')
    out = RFile()
    out.cls = rf.cls
    out.attrs = OrderedDict(rf.attrs)
    out.coords = set(rf.coords)
    for d, (n, u) in rf.dims.items():
        out.dims[d] = [len(idx[d]) if d in idx else n, u]
    if zipped:
        out.dims[newdims[0]] = [npts, False]
    for k, v in rf.vars.items():
        carried = [d for d in v.dims if d in lists]
        data, mask = v.data, v.mask
        if zipped and len(carried) >= 2:
            # orthogonal part first (non-listed dims)
            for ax, d in enumerate(v.dims):
                if d in idx and d not in lists:
                    data = np.take(data, np.array(idx[d], dtype=int), axis=ax)
                    mask = np.take(mask, np.array(idx[d], dtype=int), axis=ax)
            laxes = [ax for ax, d in enumerate(v.dims) if d in lists]
            first = laxes[0]
            rest_shape = [data.shape[ax] for ax in range(data.ndim) if ax not in laxes]
            oshape = rest_shape[:first] + [npts] + rest_shape[first:]
            nd = np.zeros(oshape, data.dtype)
            nm = np.zeros(oshape, bool)
            for p in range(npts):
                a, m = data, mask
                for ax in reversed(laxes):
                    a = np.take(a, idx[v.dims[ax]][p], axis=ax)
                    m = np.take(m, idx[v.dims[ax]][p], axis=ax)
                sl = [slice(None)] * len(oshape)
                sl[first] = p
                nd[tuple(sl)] = a
                nm[tuple(sl)] = m
            odims = [d for d in v.dims if d not in lists]
            odims.insert(first, newdims[0])
            out.vars[k] = RVar(odims, nd, nm, v.attrs, v.fill, v.masked)
        else:
            for ax, d in enumerate(v.dims):
                if d in idx:
                    data = np.take(data, np.array(idx[d], dtype=int), axis=ax)
                    mask = np.take(mask, np.array(idx[d], dtype=int), axis=ax)
            out.vars[k] = RVar(v.dims, data.copy(), mask.copy(), v.attrs, v.fill, v.masked)
    return out


# --------------------------------------------------------------------------
# apply-along-dimension

REDUCERS = ('mean', 'sum', 'min', 'max', 'std', 'var', 'prod')

FUNCS = OrderedDict([
    ('identity', lambda x: x),
    ('diff', lambda x: np.diff(x)),
    ('sub2', lambda x: x[::2]),
    ('conv2', lambda x: np.convolve(x, [.5, .5], 'valid')),
    ('cumsum', lambda x: x.cumsum()),
    ('first', lambda x: x[:1]),
    # same length, other first element
    ('reverse', lambda x: x[::-1]),
    ('demean', lambda x: x - x.mean()),
    # a function that returns a SCALAR (the library is handed the scalar-returning form, see c03.fn_to_py)
    ('scalar_mean', lambda x: np.ma.atleast_1d(x.mean()) if isinstance(x, np.ma.MaskedArray) else np.atleast_1d(x.mean())),
    # the dict form with keyword options: func1d=scale_shift, a=..., b=...
    ('ss_2_1', lambda x: x * 2. + 1.),
    ('ss_m1_3', lambda x: x * -1. + 3.),
    # ... whose (required) option decides the output length: func1d=head, n=...
    ('head_1', lambda x: x[:1]),
    ('head_2', lambda x: x[:2]),
])


def _lanes_apply(f, data, mask, ax, masked):
    """apply 1-D function f to every lane of (data, mask) along axis ax"""
    data = np.moveaxis(data, ax, -1)
    mask = np.moveaxis(mask, ax, -1)
    lead = data.shape[:-1]
    if 0 in lead:
        # numpy.apply_along_axis itself is undefined when another axis is
        # empty ("Cannot apply_along_axis when any iteration dimensions are 0")
        raise OutOfDomain('1-D function applied while another axis has length zero')
    outs_d, outs_m = [], []
    olen, odt = None, None
    for ii in np.ndindex(*lead):
        lane = np.ma.MaskedArray(data[ii].copy(), mask=mask[ii].copy()) if masked else data[ii].copy()
        r = f(lane)
        rd = np.array(np.ma.getdata(r))
        rm = np.array(np.ma.getmaskarray(r), dtype=bool).reshape(rd.shape)
        if rd.ndim != 1:
            raise OutOfDomain('function does not return 1-D')
        if olen is None:
            olen, odt = rd.shape[0], rd.dtype
        elif rd.shape[0] != olen:
            raise OutOfDomain('output length varies')
        outs_d.append(rd)
        outs_m.append(rm)
    if olen is None:   # no lanes at all (a zero-length leading axis)
        r = f(np.zeros(data.shape[-1], data.dtype))
        olen, odt = np.asarray(r).shape[0], np.asarray(r).dtype
    nd = np.array(outs_d, dtype=odt).reshape(lead + (olen,))
    nm = np.array(outs_m, dtype=bool).reshape(lead + (olen,))
    return np.moveaxis(nd, -1, ax), np.moveaxis(nm, -1, ax)


def apply1(data, mask, ax, fn, masked):
    """one function along one axis, axis retained.  fn = ('r', name) | ('f', key)"""
    if fn[0] == 'r':
        if data.shape[ax] == 0 and fn[1] in ('min', 'max'):
            raise OutOfDomain('min/max over zero-length axis')
        if data.dtype.kind not in 'fiub':
            raise OutOfDomain('non-numeric variable')
        if fn[1] == 'median':
            if masked and mask.any():
                r = np.ma.median(np.ma.MaskedArray(data, mask=mask), axis=ax, keepdims=True)
            else:
                r = np.median(np.asarray(data), axis=ax, keepdims=True)
        elif masked and mask.any():
            r = getattr(np.ma.MaskedArray(data, mask=mask), fn[1])(axis=ax, keepdims=True)
        else:
            r = getattr(np.asarray(data), fn[1])(axis=ax, keepdims=True)
        rd = np.array(np.ma.getdata(r))
        rm = np.array(np.ma.getmaskarray(r), dtype=bool).reshape(rd.shape)
        return rd, rm
    if data.dtype.kind not in 'fiub':
        raise OutOfDomain('non-numeric variable')
    if fn[0] == 'c':     # convolution with explicit weights and mode
        mode, w = fn[1], np.array(fn[2], dtype='f')
        return _lanes_apply(lambda x: np.convolve(w, np.ma.getdata(x), mode=mode)
                            if not np.ma.getmaskarray(x).any() else
                            np.ma.masked_invalid(np.convolve(w, np.ma.filled(x.astype('d'), np.nan), mode=mode)),
                            data, mask, ax, masked and bool(mask.any()))
    return _lanes_apply(FUNCS[fn[1]], data, mask, ax, masked and bool(mask.any()))


def rapply_orders(rf, dimfuncs):
    """All results obtainable by applying the per-dimension functions in any
    order (the statement does not fix an order).  Returns list of RFile."""
    import itertools
    for d in dimfuncs:
        if d not in rf.dims:
            raise OutOfDomain('unknown dimension ' + d)
        if rf.dims[d][0] < 1:
            raise OutOfDomain('zero-length dimension')
    outs = []
    seen = set()
    repeated = any(v.dims.count(d) > 1 for v in rf.vars.values() for d in dimfuncs)
    for perm, rev in [(p_, r_) for p_ in itertools.permutations(list(dimfuncs))
                      for r_ in ((False, True) if repeated else (False,))]:
        out = RFile()
        out.cls = rf.cls
        out.attrs = OrderedDict(rf.attrs)
        out.coords = set(rf.coords)
        newlen = {}
        for k, v in rf.vars.items():
            data, mask = v.data, v.mask
            for d in perm:
                # (a dimension may sit on more than one axis of a variable: the function goes along each)
                axes = [a_ for a_, vd in enumerate(v.dims) if vd == d]
                for ax in (axes[::-1] if rev else axes):       # (either axis order is accepted)
                    data, mask = apply1(data, mask, ax, dimfuncs[d], v.masked)
            out.vars[k] = RVar(v.dims, data, mask, v.attrs, v.fill, v.masked)
        for d, (n, u) in rf.dims.items():
            if d in dimfuncs:
                # output length of the function on a length-n vector
                dd, _ = apply1(np.arange(n, dtype='d'), np.zeros(n, bool), 0, dimfuncs[d], False)
                n = dd.shape[0]
            out.dims[d] = [n, u]
        from .rfile import canon
        c = canon(out)
        if c not in seen:
            seen.add(c)
            outs.append(out)
    return outs


# --------------------------------------------------------------------------
# stack

def rstack(files, d):
    f0 = files[0]
    if d not in f0.dims:
        raise OutOfDomain('unknown dimension')
    for f in files[1:]:
        if list(f.dims) != list(f0.dims) and set(f.dims) != set(f0.dims):
            raise OutOfDomain('dimension names differ')
        for k, (n, u) in f.dims.items():
            if k != d and n != f0.dims[k][0]:
                raise OutOfDomain('length of %s differs' % k)
        if set(f.vars) != set(f0.vars):
            raise OutOfDomain('variable names differ')
        for k, v in f.vars.items():
            if v.dims != f0.vars[k].dims or v.data.dtype != f0.vars[k].data.dtype:
                raise OutOfDomain('variable %s differs in dims/dtype' % k)
    out = RFile()
    out.cls = f0.cls
    out.attrs = OrderedDict(f0.attrs)
    out.coords = set(f0.coords)
    for k, (n, u) in f0.dims.items():
        out.dims[k] = [sum(f.dims[d][0] for f in files) if k == d else n, u]
    for k, v in f0.vars.items():
        if d in v.dims:
            ax = v.dims.index(d)
            data = np.concatenate([f.vars[k].data for f in files], axis=ax)
            mask = np.concatenate([f.vars[k].mask for f in files], axis=ax)
            out.vars[k] = RVar(v.dims, data, mask, v.attrs, v.fill, v.masked)
        else:
            out.vars[k] = v.copy()
    return out


def compositions(n):
    """all ways to cut 0..n into consecutive non-empty pieces: list of lists of (a, b)"""
    outs = []
    for bits in range(2 ** max(n - 1, 0)):
        cuts = [0] + [i + 1 for i in range(n - 1) if bits >> i & 1] + [n]
        outs.append([(cuts[i], cuts[i + 1]) for i in range(len(cuts) - 1)])
    outs.sort(key=lambda c: (len(c), c))
    return outs
