"""C19 - ICARTT (ffi1001) write/read round trip (Engine A)."""
import os
import shutil
import tempfile
import itertools

import numpy as np

from ..engine import core
from ..engine.core import viol, result, h64
from ..ref import ricartt
from .. import lib

VALS = (0., -1., 1.234567e-30, 9.999999e30, 123456.7, -1.234567e-4)
MISS = (-999., -9999., -99999.5, -8888., -9999.999, -9999999., 0.)
MASKS = ('none', 'one', 'column', 'near')
COMMENTS = (('PI_CONTACT_INFO', 'someone@example.org'), ('DATA_INFO', 'ratio 1:2 in ppbv'),
            ('REVISION', 'R0'),
            ('OTHER_COMMENTS', 'a long free-text comment ' + 'x' * 130 + ' end'))
LODS = ('N/A', '0.5', 'per-variable', 'varies; see UNCERTAINTY', 'see the PI')
F4CODES = (-999.99, -9999.9, -99999.5, -8888.)
NAMES = ('O3_ppbv', 'NO2_ppbv', 'CO')
# names that are substrings of the independent variable's name (Start_UTC)
SUBNAMES = ('UTC', 'Start', 'T')
UNITS = ('ppbv', 'ppbv', 'ppmv')


def sig7(a, b):
    """equal to seven significant digits"""
    a, b = float(a), float(b)
    if a == b:
        return True
    return abs(a - b) <= 5e-7 * max(abs(a), abs(b))


class Prop(core.Prop):
    ID = 'C19'
    ENGINE = 'A'
    RULE = ('every (record count 1-3, dependent variable count 1-3, rotation of the 6-value alphabet, missing '
            'code, mask pattern, subset of 3 header comment attributes, independent-variable units given/omitted, '
            'source in {hand-built file, file read from independently rendered ICARTT text}) is written and read '
            'back once and a second time; non-trivial always; distinct = distinct configurations')
    ASSUMPTIONS = [
        'the independent parser/printer mc/ref/ricartt.py is written from the FFI-1001 header grammar',
        'values are compared to 7 significant digits (the writer prints %.6e); the normal-comment count line is '
        'not judged (the statement names the header-line count and the variable count)',
    ]

    def bounds(self, tier):
        return {'records': [1, 2, 3], 'depvars': [1, 2, 3], 'value_rotations': len(VALS) if tier == 'thorough' else 3,
                'missing': MISS, 'masks': MASKS, 'comment_subsets': 16, 'indep_units': [True, False],
                'sources': ['built', 'text']}

    def worker_init(self):
        core.load_lib()
        base = '/dev/shm' if os.path.isdir('/dev/shm') else None
        self.tmp = tempfile.mkdtemp(prefix='verif_c19_', dir=base)
        import atexit
        atexit.register(shutil.rmtree, self.tmp, True)

    def groups(self, tier):
        for nrec in (1025, 10001, 20002) + ((4097, 30003) if tier == 'thorough' else ()):
            yield {'nrec': nrec, 'ndep': 2, 'rot': 1}
        for nrec in (1, 2, 3):
            for ndep in (1, 2, 3):
                for rot in range(len(VALS) if tier == 'thorough' else 3):
                    yield {'nrec': nrec, 'ndep': ndep, 'rot': rot}

    def expand(self, group):
        if group['nrec'] > 3:
            # long tables (a 1 Hz flight of several hours; writers that work in blocks)
            for mk in ('one', 'column'):
                for src in ('built', 'text'):
                    yield dict(group, miss=0, mask=mk, comments=0, indep_units=True, source=src)
            return
        for mi in range(len(MISS)):
            for mk in MASKS:
                if mk == 'near' and MISS[mi] == 0:
                    continue      # 'within 5e-6 of the code' is the code itself when the code is 0
                for cs in range(16):
                    for iu in (True, False):
                        for src in ('built', 'built-fillvalue', 'text'):
                            if src == 'built-fillvalue' and (cs not in (0, 15) or mk in ('none', 'near')):
                                continue
                            yield dict(group, miss=mi, mask=mk, comments=cs, indep_units=iu, source=src)
        # a dependent variable created before the independent one; headers of 99, 100 and 101+ lines
        for mk in MASKS:
            for cs in (0, 15):
                yield dict(group, miss=0, mask=mk, comments=cs, indep_units=True, source='built-depfirst')
        for extra in (82, 83, 84, 120):
            yield dict(group, miss=0, mask='one', comments=0, indep_units=True, source='built', extra=extra)
        if group['nrec'] >= 2:
            for mi in range(len(MISS)):
                yield dict(group, miss=mi, mask='one', comments=0, indep_units=True, source='built', tmask=True)
        for mk in ('none', 'one', 'column'):
            for mi in (0, 6):
                yield dict(group, miss=mi, mask=mk, comments=0, indep_units=True, source='built-values')
        # every dependent variable has its OWN missing code (masked data in a variable that is not the last one);
        # source variables that carry a user attribute named 'scale' (the written data are physical values)
        for mk in MASKS:
            for mi in (0, 1, 3):
                for src in ('built', 'text', 'built-fillvalue'):
                    if src == 'built-fillvalue' and mk in ('none', 'near'):
                        continue
                    yield dict(group, miss=mi, mask=mk, comments=0, indep_units=True, source=src, percode=True)
            yield dict(group, miss=0, mask=mk, comments=0, indep_units=True, source='built', scale_attr=True)
            yield dict(group, miss=0, mask=mk, comments=15, indep_units=True, source='built', scale_attr=True,
                       percode=True)
        # detection-limit comments (LLOD_/ULOD_FLAG and _VALUE): 'N/A', one number, one value per dependent
        # variable, free text whose token count matches nothing
        for li, lod in enumerate(LODS):
            for which in ('LLOD', 'ULOD', 'both'):
                for src in ('built', 'text'):
                    yield dict(group, miss=0, mask='one', comments=0, indep_units=True, source=src, lod=li, lodwhich=which)
        # valid data that happen to equal the customary detection-limit flags (-8888, -7777) while the file
        # declares none, or declares them (then they are flagged data, still not missing)
        for mk in ('none', 'one'):
            for mi in (0, 1):
                for src in ('built', 'text'):
                    yield dict(group, miss=mi, mask=mk, comments=0, indep_units=True, source=src, lodvals=True)
                    yield dict(group, miss=mi, mask=mk, comments=0, indep_units=True, source=src, lodvals=True,
                               lod=0, lodwhich='both')
        # dependent variables whose names are contained in the independent variable's name
        for mk in ('none', 'one'):
            for src in ('built', 'text'):
                yield dict(group, miss=0, mask=mk, comments=0, indep_units=True, source=src, subnames=True)
        # header comment attributes whose value is empty or blank
        for src in ('built', 'text'):
            for ev in ('', '   '):
                yield dict(group, miss=0, mask='one', comments=1, indep_units=True, source=src, emptycomment=ev)
        # fractional sampling times late in the day
        for mk in ('none', 'one'):
            for src in ('built', 'text'):
                yield dict(group, miss=0, mask=mk, comments=0, indep_units=True, source=src, fractime=True)
        # 32-bit dependent variables whose missing code has no exact 32-bit representation
        for mk in MASKS:
            for code in range(len(F4CODES)):
                yield dict(group, miss=0, mask=mk, comments=0, indep_units=True, source='built', f4code=code)
                yield dict(group, miss=0, mask=mk, comments=0, indep_units=True, source='built-values', f4code=code)
        # whole seconds stored in an integer-typed independent variable next to float dependents
        for mk in MASKS:
            for mi in (0, 2):
                yield dict(group, miss=mi, mask=mk, comments=0, indep_units=True, source='built', time_int=True)

    def misses(self, case):
        miss = MISS[case['miss']]
        if 'f4code' in case:
            return [F4CODES[case['f4code']]] * case['ndep']
        if case.get('percode'):
            return [miss, -7777., -88888.][:case['ndep']]
        return [miss] * case['ndep']

    def table(self, case):
        nrec, ndep = case['nrec'], case['ndep']
        t = np.zeros((nrec, ndep))
        k = case['rot']
        for i in range(nrec):
            for j in range(ndep):
                t[i, j] = VALS[k % len(VALS)]
                k += 1
        if MISS[case['miss']] == 0:
            t[t == 0] = 5.       # a datum equal to the missing code cannot be told from a missing one
        if case.get('lodvals'):
            t[0, 0] = -8888.
            t[nrec - 1, ndep - 1] = -7777. if (nrec, ndep) != (1, 1) else -8888.
            if nrec > 1:
                t[1, 0] = -7777.
        m = np.zeros((nrec, ndep), bool)
        if case['mask'] == 'one':
            m[nrec - 1, 0] = True
        elif case['mask'] == 'column':
            m[:, ndep - 1] = True
        elif case['mask'] == 'near':
            # a valid datum within 5e-6 (relative) of the missing code, next to a missing one
            miss = MISS[case['miss']]
            t[0, 0] = float('%.6e' % (miss * (1 + 5e-6)))
            if nrec > 1:
                m[1, 0] = True
        return t, m

    def build(self, case, t, m):
        P = lib.pnc()
        miss = MISS[case['miss']]
        misses = self.misses(case)
        nrec, ndep = t.shape
        comments = [COMMENTS[i] for i in range(4) if case['comments'] >> i & 1]
        if 'emptycomment' in case:
            comments = comments + [('STIPULATIONS_ON_USE', case['emptycomment']), ('REVISION', 'R1')]
        if 'lod' in case:
            val = LODS[case['lod']]
            if val == 'per-variable':
                val = ', '.join('%g' % (0.25 * (j + 1)) for j in range(ndep))
            for w in (('LLOD', 'ULOD') if case['lodwhich'] == 'both' else (case['lodwhich'],)):
                comments += [(w + '_FLAG', '-8888' if w == 'LLOD' else '-7777'), (w + '_VALUE', val)]
        time = np.arange(nrec, dtype='d') * 60. + 36000.
        if case.get('fractime'):
            # 10 Hz samples late in the day (seconds of day): fractional, each within 1e-5 (relative) of a whole number
            time = 54000.1 + 0.1 * np.arange(nrec, dtype='d')
        self._time = time
        self._tmask = None
        if case['source'] == 'text':
            rows = []
            for i in range(nrec):
                rows.append([time[i]] + [misses[j] if m[i, j] else t[i, j] for j in range(ndep)])
            rec = dict(indep=('Start_UTC', 'seconds' if case['indep_units'] else None),
                       deps=[(self.names[j], UNITS[j], misses[j]) for j in range(ndep)],
                       normal=comments, rows=rows)
            path = os.path.join(self.tmp, 'src_%d.ict' % os.getpid())
            with open(path, 'w') as fh:
                fh.write(ricartt.render(rec))
            return P.pncopen(path, format='ffi1001')
        f = P.PseudoNetCDFFile()
        f.createDimension('POINTS', nrec)
        f.PI_NAME, f.ORGANIZATION_NAME, f.SOURCE_DESCRIPTION = 'PI', 'ORG', 'SRC'
        f.MISSION_NAME, f.VOLUME_INFO = 'MISSION', '1, 1'
        f.SDATE, f.WDATE = '2019, 07, 01', '2019, 07, 02'
        f.TIME_INTERVAL = 60
        f.INDEPENDENT_VARIABLE = 'Start_UTC'
        for k, v in comments:
            setattr(f, k, v)
        for i in range(case.get('extra', 0)):
            setattr(f, 'COMMENT_%03d' % i, 'note number %d' % i)

        def indep():
            if case.get('tmask'):
                # a record whose time itself is flagged missing
                self._tmask = np.arange(nrec) == 1
                f.createVariable('Start_UTC', 'd', ('POINTS',), missing_value=miss, units='seconds',
                                 values=np.ma.MaskedArray(np.asarray(time, 'd'), mask=self._tmask.copy()))
                return
            tv = f.createVariable('Start_UTC', 'i' if case.get('time_int') else 'd', ('POINTS',), missing_value=miss,
                                  units='seconds' if case['indep_units'] else 'Start_UTC')
            tv[:] = time
        dt = 'f' if 'f4code' in case else 'd'
        if case['source'] != 'built-depfirst':
            indep()
        for j in range(ndep):
            if j == 1 and case['source'] == 'built-depfirst':
                indep()
            if case['source'] == 'built-values':
                # data handed over as a masked array: the array keeps numpy's own fill value next to missing_value
                v = f.createVariable(self.names[j], dt, ('POINTS',), missing_value=misses[j], units=UNITS[j],
                                     values=np.ma.MaskedArray(t[:, j].astype(dt), mask=m[:, j].copy()))
                continue
            if case['source'] == 'built-fillvalue':
                # masked variable that carries its missing code only as the fill value
                v = f.createVariable(self.names[j], dt, ('POINTS',), fill_value=misses[j], units=UNITS[j])
            else:
                v = f.createVariable(self.names[j], dt, ('POINTS',), missing_value=misses[j], units=UNITS[j])
            v[:] = np.ma.MaskedArray(t[:, j], mask=m[:, j])
            if case.get('scale_attr'):
                v.scale = (0.001, 1000., 2.5)[j]
        if case['source'] == 'built-depfirst' and ndep == 1:
            indep()
        return f

    def compare(self, g, t, m, misses, ndep, sig, scope, tag):
        vs = []
        names = [k for k in g.variables.keys()]
        want = ['Start_UTC'] + list(self.names[:ndep])
        if names != want:
            vs.append(viol('names-order', sig, '%s: %r expected %r' % (tag, names, want), **scope))
            return vs
        tgot = np.ma.filled(np.ma.asarray(g.variables['Start_UTC'][...], 'd'), np.nan)
        tbad = [(a, b) for a, b in zip(tgot, self._time) if not sig7(a, b)]
        if self._tmask is not None:
            tm = np.ma.getmaskarray(np.ma.asarray(g.variables['Start_UTC'][...]))
            tbad = [(a, b) for a, b, mm in zip(tgot, self._time, self._tmask) if not mm and not sig7(a, b)]
            if tm.shape != self._tmask.shape or not np.array_equal(tm, self._tmask):
                vs.append(viol('mask', sig, '%s: Start_UTC mask %s expected %s' % (
                    tag, tm.astype(int).tolist(), self._tmask.astype(int).tolist()), **scope))
        if tgot.shape != self._time.shape or tbad:
            vs.append(viol('independent-variable', sig, '%s: Start_UTC %s expected %s' % (
                tag, tgot.tolist()[:3], self._time.tolist()[:3]), **scope))
        for j in range(ndep):
            v = g.variables[self.names[j]]
            arr = v[...]
            gm = np.ma.getmaskarray(arr)
            gd = np.ma.getdata(arr)
            if getattr(v, 'units', None) != UNITS[j]:
                vs.append(viol('units', sig, '%s: %s units %r expected %r' % (tag, self.names[j], getattr(v, 'units', None),
                                                                              UNITS[j]), **scope))
            if float(getattr(v, 'missing_value', np.nan)) != misses[j]:
                vs.append(viol('missing-code', sig, '%s: %s missing_value %r expected %r'
                               % (tag, self.names[j], getattr(v, 'missing_value', None), misses[j]), **scope))
            if gm.shape != m[:, j].shape or not np.array_equal(gm, m[:, j]):
                vs.append(viol('mask', sig, '%s: %s mask %s expected %s' % (tag, self.names[j], gm.astype(int).tolist(),
                                                                            m[:, j].astype(int).tolist()), **scope))
                continue
            bad = [(a, b) for a, b, mm in zip(gd, t[:, j], m[:, j]) if not mm and not sig7(a, b)]
            if bad:
                vs.append(viol('values', sig, '%s: %s %r expected %r' % (tag, self.names[j], bad[0][0], bad[0][1]),
                               **scope))
        return vs

    def run_one(self, case):
        P = lib.pnc()
        self.names = SUBNAMES if case.get('subnames') else NAMES
        from PseudoNetCDF.icarttfiles.ffi1001 import ncf2ffi1001
        t, m = self.table(case)
        miss = MISS[case['miss']]
        misses = self.misses(case)
        ndep = case['ndep']
        st = [h64('c19', sorted(case.items()))]
        sig = ('ffi1001', case['source'])
        scope = dict(source=case['source'], mask=case['mask'], nrec=case['nrec'], ndep=ndep,
                     indep_units=case['indep_units'], ncomments=bin(case['comments']).count('1'), miss=miss,
                     percode=bool(case.get('percode')), scale_attr=bool(case.get('scale_attr')),
                     lod=LODS[case['lod']] if 'lod' in case else '', f4=bool('f4code' in case),
                     lodvals=bool(case.get('lodvals')), fractime=bool(case.get('fractime')),
                     subnames=bool(case.get('subnames')), emptycomment=bool('emptycomment' in case))
        vs = []
        ntrans = 0
        try:
            f = self.build(case, t, m)
            ntrans += 1
        except Exception as e:
            vs.append(viol('source-unreadable', sig, '%s: %r' % (type(e).__name__, e), exc=type(e).__name__, **scope))
            return result('viol', vs, st)
        out1 = os.path.join(self.tmp, 'o1_%d.ict' % os.getpid())
        out2 = os.path.join(self.tmp, 'o2_%d.ict' % os.getpid())
        try:
            ncf2ffi1001(f, out1).close()
            ntrans += 1
        except Exception as e:
            vs.append(viol('write-raises', sig, '%s: %r' % (type(e).__name__, e), exc=type(e).__name__, **scope))
            return result('viol', vs, st, ntrans)
        text = open(out1).read()
        try:
            p = ricartt.parse(text)
        except Exception as e:
            vs.append(viol('output-not-icartt', sig, 'independent parser: %r' % e, **scope))
            return result('viol', vs, st, ntrans)
        if p['actual_header_lines'] != p['nlhead']:
            vs.append(viol('header-line-count', sig, 'declared %d header lines, column-name line is line %r'
                           % (p['nlhead'], p['actual_header_lines']), **scope))
        if p['ndep'] != ndep or len(p['depvars']) != ndep or any(len(r) != ndep + 1 for r in p['rows']):
            vs.append(viol('variable-count', sig, 'declared %d dependent variables, %d described, row widths %s'
                           % (p['ndep'], len(p['depvars']), sorted(set(len(r) for r in p['rows']))), **scope))
        if len(p['rows']) != case['nrec']:
            vs.append(viol('record-count', sig, '%d rows for %d records' % (len(p['rows']), case['nrec']), **scope))
        if [d[0] for d in p['depvars']] != list(self.names[:ndep]) or p['missing'] != misses:
            vs.append(viol('header-content', sig, 'vars %r missing %r' % (p['depvars'], p['missing']), **scope))
        if vs:
            return result('viol', vs, st, ntrans)
        try:
            g = P.pncopen(out1, format='ffi1001')
            ntrans += 1
            vs.extend(self.compare(g, t, m, misses, ndep, sig, scope, 'first read'))
            ga = P.pncopen(out1)
            ntrans += 1
            if type(ga).__name__ != 'ffi1001':
                vs.append(viol('auto-detection', sig, 'pncopen selected %s' % type(ga).__name__, **scope))
            ncf2ffi1001(g, out2).close()
            g2 = P.pncopen(out2, format='ffi1001')
            ntrans += 2
            vs.extend(self.compare(g2, t, m, misses, ndep, sig, scope, 'second cycle'))
            d1 = {k: np.ma.filled(g.variables[k][...], np.nan).tolist() for k in g.variables.keys()}
            d2 = {k: np.ma.filled(g2.variables[k][...], np.nan).tolist() for k in g2.variables.keys()}
            if repr(d1) != repr(d2):
                vs.append(viol('second-cycle-changes-data', sig, '%r -> %r' % (d1, d2), **scope))
        except Exception as e:
            vs.append(viol('reread-raises', sig, '%s: %r' % (type(e).__name__, e), exc=type(e).__name__, **scope))
        return result('viol' if vs else 'ok', vs, st, ntrans, h64('c19', sorted(case.items())),
                      h64(text) if not vs else None)
