"""C20 - ARL packed-bit packing error is bounded and unpack inverts pack (Engine A)."""
import os
import shutil
import tempfile
import itertools

import numpy as np

from ..engine import core
from ..engine.core import viol, result, h64
from ..ref import rarl
from .. import lib


# (nx, ny, surface variables, upper variables, levels, times) of the files mapped one after the other
MAPFILES = ((20, 16, ['PRSS'], ['TEMP'], 1, 1), (25, 20, ['PRSS'], ['TEMP'], 1, 1), (16, 20, ['PRSS', 'T02M'], ['TEMP'], 2, 2),
            (20, 16, ['T02M'], ['TEMP', 'UWND'], 1, 2))


def alphabet(tier):
    a = [0., 1., -1.]
    for k in (-3, 0, 4, 15):
        b = 2. ** k
        a += [b, b * (1 - 2. ** -23), b * (1 + 2. ** -23)]
    a += [1e-30, 1e30, 255.5 * 2. ** -7]
    if tier == 'thorough':
        a += [-(2. ** 15), 2. ** 30, -0.5, 3.0e-5]
    return a


SHAPES_Q = ((1, 2), (1, 3), (2, 2))
# values in units of the quantisation step 2**(k-7): fractional parts make the packed byte round up or down,
# +-127.9 / +-128.2 sit at the edge of the byte range relative to the previously UNPACKED neighbour
UNITS = (0., 0.3, 0.7, 10.7, -117.2, 127.9, -127.9, 117.2, 64.4, 0.5)
UNIT_EXPS = (9, 0, -20)


class Prop(core.Prop):
    ID = 'C20'
    ENGINE = 'A'
    RULE = ('fields: every assignment of the adversarial alphabet (0, +-1, 2^k and its float32 neighbours for '
            'k in {-3,0,4,15}, 1e-30, 1e30, 255.5*2^-7) to the cells of shapes 1x2, 1x3, 2x2 (quick) plus 2x3 over '
            'a 9-value sub-alphabet, constant fields and 1x64 / 3x3 ramps (thorough); files: reference-encoded '
            'lat/lon ARL files for every (1-3 times, 1-2 upper levels, 1-2 surface and upper variables, field '
            'pattern); non-trivial iff the field is not constant; distinct = distinct fields / file recipes')
    ASSUMPTIONS = [
        'the serial reference (mc/ref/rarl.py) follows the ARL pakout/pakinp description with float32 emulation '
        'and an exact base-2 logarithm',
        'bound = 2**(NEXP-7) of the exponent the library recorded, compared in float64 with a 1e-6 relative '
        'slack for float32 accumulation in the decoder',
    ]

    def bounds(self, tier):
        return {'alphabet_size': len(alphabet(tier)), 'shapes': SHAPES_Q + (((2, 3),) if tier == 'thorough' else ()),
                'chains': {'units': UNITS, 'exponents': UNIT_EXPS, 'length': [3, 4, 5] if tier == 'thorough' else [3, 4],
                           'orientation': ['column', 'row']},
                'file_recipes': 'times 1-3 x levels 1-2 x nsfc 1-2 x nupper 1-2 x 3 patterns'}

    def worker_init(self):
        core.load_lib()
        base = '/dev/shm' if os.path.isdir('/dev/shm') else None
        self.tmp = tempfile.mkdtemp(prefix='verif_c20_', dir=base)
        import atexit
        atexit.register(shutil.rmtree, self.tmp, True)

    def groups(self, tier):
        a = alphabet(tier)
        for shape in SHAPES_Q:
            for first in range(len(a)):
                yield {'part': 'field', 'shape': list(shape), 'first': first}
        if tier == 'thorough':
            sub = [0, 1, 2, 3, 4, 9, 12, 15, 17]
            for first in sub:
                for second in sub:
                    yield {'part': 'field', 'shape': [2, 3], 'first': first, 'second': second, 'sub': sub}
        # chains along the first column (rows are packed relative to the row above) and along the first row
        for k in UNIT_EXPS:
            for n in ((3, 4, 5) if tier == 'thorough' else (3, 4)):
                for orient in ('column', 'row'):
                    for u0 in range(len(UNITS)):
                        yield {'part': 'chain', 'k': k, 'n': n, 'orient': orient, 'u0': u0}
        yield {'part': 'special'}
        for nt in (1, 2, 3):
            for nlev in (1, 2):
                yield {'part': 'file', 'nt': nt, 'nlev': nlev}
        # three upper levels, the second variable on the first and the third only
        for nt in (1, 2):
            yield {'part': 'file', 'nt': nt, 'nlev': 3, 'gap': True}
        # two files mapped one after the other in the same process: the second is laid out as the SECOND prescribes
        for a in range(len(MAPFILES)):
            for b in range(len(MAPFILES)):
                if a != b:
                    yield {'part': 'mapseq', 'first': a, 'second': b}
        # grids with 1000 or more points along one axis (thousands are stored as letters in the label)
        for grid in ([1002, 3], [3, 1100]) + (([2001, 3],) if tier == 'thorough' else ()):
            yield {'part': 'file', 'nt': 2, 'nlev': 1, 'grid': list(grid), 'big': True}

    def expand(self, group):
        a = alphabet(self.tier)
        if group['part'] == 'field':
            n = group['shape'][0] * group['shape'][1]
            if 'sub' in group:
                for rest in itertools.product(group['sub'], repeat=n - 2):
                    yield {'part': 'field', 'shape': group['shape'],
                           'idx': [group['first'], group['second']] + list(rest)}
            else:
                for rest in itertools.product(range(len(a)), repeat=n - 1):
                    yield {'part': 'field', 'shape': group['shape'], 'idx': [group['first']] + list(rest)}
        elif group['part'] == 'chain':
            for rest in itertools.product(range(len(UNITS)), repeat=group['n'] - 1):
                # (the statement quantifies over fields with at least two columns)
                others = (2,) if self.tier != 'thorough' else ((2, 3) if group['orient'] == 'column' else (1, 2))
                for other in others:
                    yield dict(group, us=[group['u0']] + list(rest), other=other)
        elif group['part'] == 'mapseq':
            yield dict(group)
        elif group['part'] == 'special':
            for v in (0., 1., -273.15, 1e30, 1e-30):
                yield {'part': 'special', 'kind': 'constant', 'v': v, 'shape': [2, 3]}
            for step in (0.5, -0.5, 0.25, -0.25, 1.0, -1.0, 2. ** 15, -(2. ** 15), 0.1, -0.1, 1e-3):
                for shape in ([1, 64], [3, 3], [4, 16]):
                    yield {'part': 'special', 'kind': 'ramp', 'v': step, 'shape': shape}
            # fields of realistic size (the byte total of the checksum passes 2**24)
            for shape in ([380, 420],) + (([428, 614],) if self.tier == 'thorough' else ()):
                yield {'part': 'special', 'kind': 'saw', 'v': 0.37, 'shape': shape}
        elif group.get('gap'):
            yield dict(group, nsfc=1, nup=2, pattern='ramp', levvars=True)
            yield dict(group, nsfc=2, nup=2, pattern='wave', levvars=True)
        elif group.get('big'):
            yield dict(group, nsfc=1, nup=1, pattern='ramp')
            yield dict(group, nsfc=2, nup=1, pattern='wave')
        else:
            for nsfc in (1, 2):
                for nup in (1, 2):
                    for pat in ('ramp', 'wave', 'steps', 'fine'):
                        yield dict(group, nsfc=nsfc, nup=nup, pattern=pat)
            # levels strictly between 0 and 0.1 (sigma 0.05, 0.025: the field starts with the decimal point);
            # fields that are smooth at the first time and rough later (the exponent differs between time records)
            yield dict(group, nsfc=1, nup=1, pattern='ramp', lowlevels=True)
            yield dict(group, nsfc=2, nup=2, pattern='wave', lowlevels=True)
            for nsfc in (1, 2):
                yield dict(group, nsfc=nsfc, nup=1, pattern='rough')
                yield dict(group, nsfc=nsfc, nup=2, pattern='rough-decay')
            if group['nlev'] == 2:
                # the second upper level carries a variable the first one lacks
                yield dict(group, nsfc=1, nup=2, pattern='ramp', levvars=True)

    def run_one(self, case):
        if case['part'] == 'file':
            return self.run_file(case)
        if case['part'] == 'mapseq':
            return self.run_mapseq(case)
        a = alphabet(self.tier)
        if case['part'] == 'chain':
            step = 2. ** (case['k'] - 7)
            line = np.cumsum([UNITS[i] for i in case['us']]) * step + (100. if case['k'] > 0 else 0.)
            f = np.repeat(line[:, None], case['other'], axis=1)
            # the other axis varies by whole steps only
            f = f + (np.arange(case['other']) % 3)[None, :] * step
            if case['orient'] == 'row':
                f = f.T.copy()
            return self.check_field(f, case)
        if case['part'] == 'field':
            f = np.array([a[i] for i in case['idx']], dtype='d').reshape(case['shape'])
        elif case['kind'] == 'constant':
            f = np.full(case['shape'], case['v'], dtype='d')
        elif case['kind'] == 'saw':
            j_, i_ = np.mgrid[0:case['shape'][0], 0:case['shape'][1]]
            f = 280. + case['v'] * ((3 * i_ + 5 * j_) % 11) + 0.01 * j_
        else:
            n = case['shape'][0] * case['shape'][1]
            f = (10. + case['v'] * np.arange(n)).reshape(case['shape'])
        return self.check_field(f, case)

    def check_field(self, f, case):
        from PseudoNetCDF.noaafiles._arl import pack2d, unpack
        x32 = f.astype('f')
        ny, nx = x32.shape
        st = [h64(x32.tobytes(), x32.shape)]
        sig = ('pack2d',)
        rmax = 0.
        flat = x32.astype('d')
        diffs = [abs(flat[j, i] - flat[j, i - 1]) for j in range(ny) for i in range(1, nx)] + \
                [abs(flat[j, 0] - flat[j - 1, 0]) for j in range(1, ny)]
        rmax = max(diffs) if diffs else 0.
        pow2 = bool(rmax > 0 and abs(np.log2(rmax) - round(np.log2(rmax))) < 1e-9)
        scope = dict(shape='%dx%d' % (ny, nx), rmax_is_power_of_two=pow2,
                     rmax_log2=int(round(np.log2(rmax))) if rmax > 0 else None)
        vs = []
        try:
            with np.errstate(all='ignore'):
                cvar, prec, nexp, var1, ksum = pack2d(x32.copy())
        except Exception as e:
            vs.append(viol('pack-raises', sig, '%s: %r for %s' % (type(e).__name__, e, f.tolist()),
                           exc=type(e).__name__, **scope))
            return result('viol', vs, st)
        data = np.asarray(cvar).view('uint8').reshape(ny, nx)
        nexp = int(nexp)
        bound = 2.0 ** (nexp - 7)
        if float(var1) != float(x32[0, 0]):
            vs.append(viol('first-element', sig, 'VAR1=%r for field[0,0]=%r' % (var1, x32[0, 0]), **scope))
        if float(prec) != float(np.float32((2.0 ** nexp) / 254.0)):
            vs.append(viol('precision-value', sig, 'PREC=%r expected 2**%d/254' % (prec, nexp), **scope))
        want_ksum = rarl.checksum(data.ravel().tolist())
        if int(ksum) != want_ksum:
            vs.append(viol('checksum', sig, 'KSUM=%d but the rotating byte sum of %s is %d'
                           % (ksum, data.ravel().tolist(), want_ksum), **scope))
        with np.errstate(all='ignore'):
            dec = np.asarray(unpack(data[None].view('>S1'), np.array([var1]), np.array([nexp])), 'd')[0]
        ser = rarl.serial_unpack(data.ravel().tolist(), ny, nx, float(var1), nexp).astype('d')
        for tag, d in (('unpack', dec), ('serial-decoder', ser)):
            if float(d[0, 0]) != float(x32[0, 0]):
                vs.append(viol('first-element', (tag,), '%s gives %r for %r' % (tag, d[0, 0], x32[0, 0]), **scope))
            err = np.abs(d - x32.astype('d'))
            if not np.all(err <= bound * (1 + 1e-6)):
                j = int(np.argmax(err))
                vs.append(viol('error-exceeds-step', (tag,),
                               'field %s NEXP=%d step=%g bytes=%s: element %d decoded %r (error %g)'
                               % (x32.tolist(), nexp, bound, data.ravel().tolist(), j, d.flat[j], err.flat[j]),
                               **scope))
        nontriv = h64(x32.tobytes(), x32.shape) if rmax > 0 else None
        return result('viol' if vs else 'ok-field', vs, st, 2, nontriv,
                      h64(data.tobytes(), nexp) if not vs else None)

    # ------------------------------------------------------------------
    def map_rec(self, k):
        nx, ny, sfcn, upn, nlev, nt = MAPFILES[k]
        j, i = np.mgrid[0:ny, 0:nx]
        fld = lambda s: (s + 0.5 * i + 2. * j).astype('f')
        times = [(95, 12, 31, 12), (96, 1, 1, 0)][:nt]
        return dict(nx=nx, ny=ny, times=times, sfclevel=1.0, levels=[0.5, 0.25][:nlev],
                    sfc={n: [fld(1000. * (q + 1) + ti) for ti in range(nt)] for q, n in enumerate(sfcn)},
                    upper={n: [[fld(100. * (q + 1) + 10 * li + ti) for li in range(nlev)] for ti in range(nt)]
                           for q, n in enumerate(upn)})

    def run_mapseq(self, case):
        """maparlpackedbit(path) called for two different files in a row (no props given)"""
        from PseudoNetCDF.noaafiles._arl import maparlpackedbit, unpack
        vs = []
        recs = [self.map_rec(case['first']), self.map_rec(case['second'])]
        paths = []
        for q, r in enumerate(recs):
            pth = os.path.join(self.tmp, 'map_%d_%d.bin' % (os.getpid(), q))
            with open(pth, 'wb') as fh:
                fh.write(rarl.encode_file(r))
            paths.append(pth)
        scope = dict(first='%dx%d' % (recs[0]['nx'], recs[0]['ny']), second='%dx%d' % (recs[1]['nx'], recs[1]['ny']),
                     same_grid=bool((recs[0]['nx'], recs[0]['ny']) == (recs[1]['nx'], recs[1]['ny'])))
        sig = ('maparlpackedbit', 'sequence')
        try:
            m1 = maparlpackedbit(paths[0])
            del m1
            m2 = maparlpackedbit(paths[1])
            r = recs[1]
            nt = len(r['times'])
            if m2.shape != (nt,):
                vs.append(viol('map-layout', sig, 'second file mapped as %r time records, it has %d' % (m2.shape, nt),
                               **scope))
            names = list(m2['surface'].dtype.names)
            if names != list(r['sfc']):
                vs.append(viol('map-layout', sig, 'surface variables %r expected %r' % (names, list(r['sfc'])), **scope))
            else:
                for n in names:
                    head = m2['surface'][n]['head']
                    raw = m2['surface'][n]['data']
                    if raw.shape[-2:] != (r['ny'], r['nx']):
                        vs.append(viol('map-layout', sig, '%s mapped as %r, the grid is %d rows x %d columns'
                                       % (n, raw.shape, r['ny'], r['nx']), **scope))
                        break
                    got = np.asarray(unpack(raw, head['VAR1'], head['EXP']), 'd')
                    for ti in range(nt):
                        self.cmp_field(vs, sig, scope, n, got[ti], r['sfc'][n][ti])
            del m2
        except Exception as e:
            vs.append(viol('map-raises', sig, '%s: %r' % (type(e).__name__, e), exc=type(e).__name__, **scope))
        return result('viol' if vs else 'ok-map', vs, [h64('map', case['first'], case['second'])], 2,
                      h64('map', case['first'], case['second']), h64('ok') if not vs else None)

    def run_file(self, case):
        P = lib.pnc()
        nx, ny = case.get('grid', (20, 16))
        nt, nlev, nsfc, nup, pat = case['nt'], case['nlev'], case['nsfc'], case['nup'], case['pattern']

        def field(seed, ti=0):
            j, i = np.mgrid[0:ny, 0:nx]
            if pat in ('rough', 'rough-decay'):
                amp = 0.01 * 40. ** (ti if pat == 'rough' else 2 - ti)
                return (280. + seed + amp * ((7 * i + 3 * j) % 5)).astype('f')
            if pat == 'ramp':
                return (seed + 0.5 * i + 2. * j).astype('f')
            if pat == 'wave':
                return (280. + seed + 10. * np.sin(i / 3.) * np.cos(j / 2.)).astype('f')
            if pat == 'fine':
                # eight significant digits in the first value, neighbour differences of a few millimetres
                return (1456.78955 + 0.001 * (seed % 7) + 0.003 * ((i + 2 * j) % 5)).astype('f')
            return (seed + (i // 5) * 32768. - (j // 4) * 1000.).astype('f')
        times = [(95, 12, 31, 12), (96, 1, 1, 0), (96, 1, 2, 12)][:nt]
        sfcn = ['PRSS', 'T02M'][:nsfc]
        upn = ['TEMP', 'UWND'][:nup]
        levels = [0.99825, 20.125, 50.5][:nlev]      # all six characters of the level field are significant
        if case.get('lowlevels'):
            levels = [0.05, 0.025][:nlev]
        rec = dict(nx=nx, ny=ny, times=times, sfclevel=1.0, levels=levels,
                   sfc={n: [field(1000. * (k + 1) + ti, ti) for ti in range(nt)] for k, n in enumerate(sfcn)},
                   upper={n: [[field(100. * (k + 1) + 10 * li + ti, ti) for li in range(nlev)] for ti in range(nt)]
                          for k, n in enumerate(upn)})
        if case.get('levvars'):
            rec['level_names'] = [[upn[0]], list(upn)] if nlev == 2 else [list(upn), [upn[0]], list(upn)]
        raw = rarl.encode_file(rec)
        path = os.path.join(self.tmp, 'arl_%d.bin' % os.getpid())
        with open(path, 'wb') as fh:
            fh.write(raw)
        st = [h64(raw)]
        sig = ('arlpackedbit',)
        scope = dict(nt=nt, nlev=nlev, nsfc=nsfc, nup=nup, pattern=pat, grid='%dx%d' % (nx, ny),
                     lowlevels=bool(case.get('lowlevels')))
        vs = []
        try:
            f = P.pncopen(path, format='arlpackedbit')
            names = [k for k in f.variables.keys()]
            for n in sfcn + upn:
                if n not in names:
                    vs.append(viol('variable-list', sig, '%s missing from %r' % (n, names), **scope))
            if len(f.dimensions['time']) != nt or len(f.dimensions['z']) != nlev:
                vs.append(viol('dimensions', sig, 'time=%d z=%d expected %d, %d'
                               % (len(f.dimensions['time']), len(f.dimensions['z']), nt, nlev), **scope))
            zv = np.asarray(f.variables['z'][...], 'd')
            if not np.allclose(zv, levels, rtol=0, atol=1e-6):
                vs.append(viol('level-list', sig, 'z=%s expected %s' % (zv, levels), **scope))
            import datetime
            tt = [t.replace(tzinfo=None) if getattr(t, 'tzinfo', None) else t for t in f.getTimes()]
            want = [datetime.datetime(1900 + y if y > 68 else 2000 + y, m, d, h) for y, m, d, h in times]
            if list(tt) != want:
                vs.append(viol('times', sig, 'getTimes=%s expected %s' % (list(tt), want), **scope))
            for n in sfcn:
                got = np.asarray(f.variables[n][...], 'd')
                for ti in range(nt):
                    self.cmp_field(vs, sig, scope, n, got[ti], rec['sfc'][n][ti])
            for n in upn:
                got = np.asarray(f.variables[n][...], 'd')
                for ti in range(nt):
                    for li in range(nlev):
                        if case.get('levvars') and n not in rec['level_names'][li]:
                            continue      # the file holds no such record: nothing is demanded of that slab
                        self.cmp_field(vs, sig, scope, n, got[ti, li], rec['upper'][n][ti][li])
            # writer direction: library writer output decoded by the independent reader
            from PseudoNetCDF.noaafiles._arl import writearlpackedbit
            outp = path + '.out'
            if os.path.exists(outp):
                os.unlink(outp)
            try:
                if case.get('levvars'):
                    # the writer gives every upper variable to every level (the statement is about reading
                    # files laid out as the format prescribes): not judged for per-level variable lists
                    raise StopIteration
                writearlpackedbit(f, outp)
                wraw = open(outp, 'rb').read()
                # the same file written again onto a path that already holds a LONGER packed-bit file
                with open(outp, 'wb') as fh:
                    fh.write(wraw + wraw)
                writearlpackedbit(f, outp)
                if open(outp, 'rb').read() != wraw:
                    vs.append(viol('writer-keeps-old-content', ('writearlpackedbit',),
                                   'writing %d bytes onto a path that held %d bytes leaves %d bytes'
                                   % (len(wraw), 2 * len(wraw), os.path.getsize(outp)), **scope))
                d = rarl.decode_file(wraw)
                for pr in d['problems'][:3]:
                    vs.append(viol('writer-layout', ('writearlpackedbit',), pr, **scope))
                if not d['problems']:
                    if d['names'] != [sfcn] + [upn] * nlev or not np.allclose(d['levels'], [1.0] + levels, atol=1e-5):
                        vs.append(viol('writer-lists', ('writearlpackedbit',), 'levels %s names %s'
                                       % (d['levels'], d['names']), **scope))
                    if len(d['times']) != nt:
                        vs.append(viol('writer-times', ('writearlpackedbit',), '%r' % d['times'], **scope))
                    for (ti, li, nm), (arr, nexp) in d['fields'].items():
                        src = np.asarray(f.variables[nm][...], 'd')
                        ref = src[ti] if li == 0 else src[ti, li - 1]
                        if not np.all(np.abs(arr.astype('d') - ref) <= 2.0 ** (nexp - 7) * (1 + 1e-6)
                                      + abs(ref[0, 0]) * 1e-7):
                            vs.append(viol('writer-field-error', ('writearlpackedbit',),
                                           '%s time %d level %d differs from the values written by more than a step'
                                           % (nm, ti, li), **scope))
                            break
            except StopIteration:
                pass
            except Exception as e:
                vs.append(viol('writer-raises', ('writearlpackedbit',), '%s: %r' % (type(e).__name__, e),
                               exc=type(e).__name__, **scope))
            auto = P.pncopen(path)
            if type(auto).__name__ != 'arlpackedbit':
                vs.append(viol('auto-detection', sig, 'pncopen selected %s' % type(auto).__name__, **scope))
        except Exception as e:
            vs.append(viol('reader-raises', sig, '%s: %r' % (type(e).__name__, e), exc=type(e).__name__, **scope))
        return result('viol' if vs else 'ok-file', vs, st, 2, h64('arlfile', sorted(case.items())),
                      h64(raw) if not vs else None)

    def cmp_field(self, vs, sig, scope, name, got, want):
        data, prec, nexp, var1, ksum = rarl.serial_pack(want)
        bound = 2.0 ** (nexp - 7)
        # VAR1 is stored with 8 significant digits in the record label
        slack = abs(float(var1)) * 1e-7
        if got.shape != want.shape:
            vs.append(viol('field-shape', sig, '%s: %r != %r' % (name, got.shape, want.shape), **scope))
            return
        err = np.abs(got - want.astype('d'))
        if not np.all(err <= bound * (1 + 1e-6) + slack):
            j = int(np.argmax(err))
            vs.append(viol('field-error-exceeds-step', sig, '%s: element %d read %r encoded %r (step %g)'
                           % (name, j, got.flat[j], want.flat[j], bound), **scope))
